"""Differential checking of an accepted transformation (C05, C06, C07, ...).

The interpreter decides in-process (cheap, so Hypothesis can shrink); every
reported failure is confirmed with gfortran on the code PSyclone writes for
the original and the transformed tree before it becomes a violation.
"""
from __future__ import annotations

import sys

from vlib import fortran_exec as fx
from vlib import interp as I
from vlib import psy


# Undefined locals of the TRANSFORMED program: two sentinel valuations, the
# same in the interpreter and in the gfortran confirmation
# (-finit-integer=<v> -finit-real=zero). A transformed program whose result
# does not depend on them and equals the original's is fine; otherwise the
# difference is observable.
SENTINELS = [{"int": -3, "real": 0, "log": False},
             {"int": 11, "real": 0, "log": False}]


def sentinel_flags(sent):
    return (f"-finit-integer={sent['int']}", "-finit-real=zero",
            "-finit-logical=false")


def outcomes(prog, tree, trace=False, uninit=None):
    """Per input: ('ok', observables, interp) or (kind, message, None) with
    kind in unsup / ood / err."""
    out = []

    def setup(itp):
        if uninit is not None:
            from fractions import Fraction
            itp.uninit = {"int": uninit["int"],
                          "real": Fraction(uninit["real"]),
                          "log": uninit["log"]}
    for inp in prog.inputs:
        try:
            obs, itp = I.run_prog(prog, tree, inp, trace=trace, setup=setup)
            out.append(("ok", obs, itp))
        except I.Unsupported as err:
            out.append(("unsup", str(err), None))
        except I.OutOfDomain as err:
            out.append(("ood", str(err), None))
        except I.InterpError as err:
            out.append(("err", f"{type(err).__name__}: {err}", None))
        except RecursionError as err:
            out.append(("unsup", "recursion", None))
    return out


def compare(orig, new):
    """orig/new: outcomes lists. Returns None (agree), ('discard', why) or
    ('fail', message, input_index)."""
    for num, (one, two) in enumerate(zip(orig, new)):
        if one[0] != "ok":
            return ("discard", "orig_" + one[0])
    for num, (one, two) in enumerate(zip(orig, new)):
        if two[0] in ("unsup", "ood"):
            return ("discard", "new_" + two[0])
        if two[0] == "err":
            return ("fail", f"input {num + 1}: transformed code is ill-formed "
                    f"at run time: {two[1]}", num)
        for name, vals in one[1].items():
            if two[1].get(name) != vals:
                return ("fail", f"input {num + 1}: variable {name}: original "
                        f"{[str(v) for v in vals]} transformed "
                        f"{[str(v) for v in two[1].get(name)]}", num)
    return None


def gfortran_compare(uid, drv, text0, text1, extra_flags=(), env=None):
    """Run both module texts with the driver. Returns
    ('invalid', msg) if the original does not run, None if outputs agree,
    ('diff', msg) otherwise."""
    from props.c01_roundtrip import compare as cmp_results
    with fx.Workdir("verif-dt-") as wdir:
        res0 = fx.run_units([(uid, text0, drv)], workdir=wdir,
                            extra_flags=extra_flags, env=env)[uid]
        if not res0.ok:
            return ("invalid", repr(res0))
        res1 = fx.run_units([(uid, text1, drv)], workdir=wdir,
                            extra_flags=extra_flags, env=env)[uid]
    got = cmp_results(res0, res1)
    if got is None:
        return None
    return ("diff", f"{got[0]}: {got[1]}")


def note_unconfirmed(ctx, case, msg):
    ctx.extra["unconfirmed_by_gfortran"] = \
        ctx.extra.get("unconfirmed_by_gfortran", 0) + 1
    sys.stderr.write(f"[{ctx.prop}] interpreter-only difference NOT confirmed "
                     f"by gfortran (ignored): {msg}\n"
                     f"{case.get('module', '')}\n")


# ----------------------------------------------------------------------
# table-driven "accepted transformation preserves semantics" property
# ----------------------------------------------------------------------
class TransCheck:
    """spec: {name: dict(make=callable -> transformation instance,
                         candidates=fn(routine)->list of targets,
                         apply=optional fn(trans, target, options),
                         loop_of=optional fn(target)->Loop for trip facts,
                         options=optional fn(draw)->dict)}"""

    def __init__(self, prop, spec, profile, nontrivial=None,
                 extra_flags=(), facts=None):
        self.prop = prop
        self.spec = spec
        self.profile = profile
        self.nontrivial = nontrivial
        self.extra_flags = extra_flags
        self.extra_facts = facts

    def transform(self, src, name, tidx, options, subname):
        from psyclone.psyir.transformations import TransformationError
        ent = self.spec[name]
        psy.reset_state()
        orig = psy.read(src)
        new = orig.copy()
        cands = ent["candidates"](psy.routine_of(new, subname))
        if not cands:
            return orig, None, None, "no_target"
        target = cands[tidx % len(cands)]
        ocands = ent["candidates"](psy.routine_of(orig, subname))
        otarget = ocands[tidx % len(ocands)]
        trans = ent["make"]()
        try:
            if "apply" in ent:
                ent["apply"](trans, target, options or None)
            else:
                trans.apply(target, options or None)
        except TransformationError as err:
            return orig, None, otarget, "refused:" + str(err.value)[:60]
        return orig, new, otarget, "accepted"

    def check_case(self, ctx, prog, name, tidx, options):
        src = prog.module_source
        try:
            orig, new, otarget, status = self.transform(
                src, name, tidx, options, prog.subname)
        except Exception as err:      # pylint: disable=broad-except
            # not a TransformationError: outside the property's claim
            ctx.label(f"{name}:other_exception:{psy.exc_key(err)}")
            return None
        if new is None:
            ctx.label(f"{name}:{status.split(':')[0]}")
            return None
        orig_out = outcomes(prog, orig)
        got = None
        for sent in SENTINELS:
            new_out = outcomes(prog, new, uninit=sent)
            got = compare(orig_out, new_out)
            if got is not None:
                break
        if got and got[0] == "discard":
            ctx.discard(got[1])
            return None
        ctx.label(f"{name}:accepted")
        facts = {}
        ent = self.spec[name]
        oloop = ent["loop_of"](otarget) if "loop_of" in ent else None
        if oloop is not None:
            from psyclone.psyir.nodes import Literal
            trips = []
            for out in orig_out:
                trips.extend(out[2].trips.get(id(oloop), []))
            facts["trips"] = sorted(set(trips))
            facts["step"] = oloop.step_expr.value \
                if isinstance(oloop.step_expr, Literal) else "expr"
            if got is not None:
                facts["trips_failing"] = sorted(set(
                    orig_out[got[2]][2].trips.get(id(oloop), [])))
        if self.extra_facts:
            facts.update(self.extra_facts(name, otarget, orig_out, got))
        nontriv = self.nontrivial(name, otarget, facts) \
            if self.nontrivial else True
        if nontriv:
            ctx.nontriv([src.replace(prog.uid, "@"), name, tidx, options])
            ctx.sample({"trans": name, "target": tidx, "options": options,
                        "module": src})
        if got is None:
            return None
        return (f"{name}:diff", got[1], facts)

    @staticmethod
    def case_dict(prog, name, tidx, options, facts):
        return {"uid": prog.uid, "module": prog.module_source,
                "driver": prog.driver_sub(), "trans": name, "target": tidx,
                "options": options, "facts": facts}

    def gf_verdict(self, case):
        """Ground truth for a stored case (gfortran on PSyclone's output
        for the original and the transformed tree). None | message."""
        sub = "s" + case["uid"]
        try:
            orig, new, _, _ = self.transform(
                case["module"], case["trans"], case["target"],
                case["options"], sub)
        except Exception as err:      # pylint: disable=broad-except
            return None
        if new is None:
            return None
        try:
            text0 = psy.write(orig)
        except Exception:             # pylint: disable=broad-except
            return None
        try:
            text1 = psy.write(new)
        except Exception as err:      # pylint: disable=broad-except
            return f"transformed tree cannot be written: " \
                   f"{type(err).__name__}: {err}"
        for sent in SENTINELS:
            got = gfortran_compare(
                case["uid"], case["driver"], text0, text1,
                extra_flags=tuple(self.extra_flags) + sentinel_flags(sent))
            if got is not None and got[0] == "invalid":
                return None
            if got is not None:
                return got[1]
        return None

    def run(self, ctx, quick_total, thorough_total, names=None):
        from hypothesis import strategies as st
        from vlib import gen_fortran as gf
        names = names or list(self.spec)
        import os
        if os.environ.get("VERIF_ONLY"):      # development aid
            names = [n for n in names
                     if n in os.environ["VERIF_ONLY"].split(",")] or names
        count = [0]
        spec = self.spec
        profile = self.profile

        @st.composite
        def cases(draw, name):
            prof = spec[name].get("profile", profile)
            strat = spec[name].get("programs", gf.programs)
            prog = draw(strat(prof))
            tidx = draw(st.integers(0, 11))
            opts = spec[name]["options"](draw) \
                if "options" in spec[name] else {}
            return prog, name, tidx, opts

        def prop(case):
            prog, name, tidx, options = case
            ctx.case()
            count[0] += 1
            prog = prog.with_uid(f"{ctx.shard}x{count[0]}")
            got = self.check_case(ctx, prog, name, tidx, options)
            if got is not None:
                ctx.fail(got[0],
                         self.case_dict(prog, name, tidx, options, got[2]),
                         got[1])

        def confirm(fail):
            msg = self.gf_verdict(fail.case)
            if msg is None:
                note_unconfirmed(ctx, fail.case, fail.msg)
                return False
            fail.case["gfortran"] = msg
            return True

        per = max(5, ctx.scale(quick_total, thorough_total) // len(names))
        for num, name in enumerate(names):
            ctx.hyp(prop, cases(name), max_examples=per, salt=num * 10,
                    confirm=confirm,
                    key=lambda c: [c[0].module_source, c[1], c[2], c[3]])
