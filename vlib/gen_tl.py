"""Hypothesis grammar of tangent-linear kernels for C19 (PSyAD).

A generated kernel is a module with one subroutine. All statements follow
PSyAD's documented tangent-linear rules (doc/psyad/user_guide/
implementation.rst): every active assignment is `A = sum_i coeff_i * B_i`
with passive coefficients, active variables never appear in loop bounds,
conditions, subscripts or denominators, passive *arguments* are never
written, and a passive local is assigned by exactly one statement and read
only by later statements of the same statement sequence (so the documented
"passive variable read before and after being modified" hazard, issue
#1458, is excluded).

Every subscript is in bounds by construction for two environments: the
small extent `n` used by the exact oracle and n = 20, the extent PSyAD's
generated test harness gives to every dimensioning argument. Integer
expressions are affine forms (`Aff`) evaluated by interval arithmetic over
the hulls of the enclosing loop variables in both environments.
"""
from __future__ import annotations

from fractions import Fraction

from hypothesis import strategies as st

NBIG = 20          # psyclone.psyad.tl2ad.TEST_ARRAY_DIM_SIZE


# ----------------------------------------------------------------------
# affine integer expressions
# ----------------------------------------------------------------------
class Aff:
    """const + sum coef*name (names: n, k1, k2, loop variables, m1...)."""

    def __init__(self, terms=None, const=0):
        self.terms = {k: v for k, v in (terms or {}).items() if v}
        self.const = const

    @staticmethod
    def of(val):
        if isinstance(val, Aff):
            return val
        if isinstance(val, int):
            return Aff({}, val)
        return Aff({val: 1}, 0)

    def __add__(self, other):
        other = Aff.of(other)
        terms = dict(self.terms)
        for key, val in other.terms.items():
            terms[key] = terms.get(key, 0) + val
        return Aff(terms, self.const + other.const)

    def __neg__(self):
        return Aff({k: -v for k, v in self.terms.items()}, -self.const)

    def __sub__(self, other):
        return self + (-Aff.of(other))

    def rng(self, env):
        low = high = self.const
        for key, coef in self.terms.items():
            vlo, vhi = env[key]
            if coef > 0:
                low += coef * vlo
                high += coef * vhi
            else:
                low += coef * vhi
                high += coef * vlo
        return low, high

    def value(self, env):
        low, high = self.rng(env)
        assert low == high, (self.text(), env)
        return low

    def text(self):
        pos = [(k, v) for k, v in sorted(self.terms.items()) if v > 0]
        neg = [(k, v) for k, v in sorted(self.terms.items()) if v < 0]
        out = ""
        for key, coef in pos:
            item = key if coef == 1 else f"{coef} * {key}"
            out = item if not out else f"{out} + {item}"
        const = self.const
        if const > 0 and neg and not out:
            out = str(const)
            const = 0
        for key, coef in neg:
            item = key if coef == -1 else f"{-coef} * {key}"
            out = f"-{item}" if not out else f"{out} - {item}"
        if not out:
            return str(const)
        if const > 0:
            out = f"{out} + {const}"
        elif const < 0:
            out = f"{out} - {-const}"
        return out


class Var:
    def __init__(self, name, typ, dims=(), arg=True, active=False,
                 div_ok=False, assumed=False):
        self.name = name
        self.typ = typ              # 'real' | 'int' | 'log'
        self.dims = list(dims)      # [(Aff lo, Aff hi)]
        self.arg = arg
        self.active = active
        self.div_ok = div_ok
        self.assumed = assumed

    def decl_dims(self):
        if not self.dims:
            return ""
        if self.assumed:
            return "(" + ",".join(":" for _ in self.dims) + ")"
        parts = []
        for low, high in self.dims:
            if low.terms == {} and low.const == 1:
                parts.append(high.text())
            else:
                parts.append(f"{low.text()}:{high.text()}")
        return "(" + ",".join(parts) + ")"


class Scope:
    def __init__(self, envs, idxvars=(), temps=(), depth=0, in_loop=False):
        self.envs = envs                  # (env_small, env_big)
        self.idxvars = list(idxvars)
        self.temps = list(temps)
        self.depth = depth
        self.in_loop = in_loop

    def child(self, newvar=None, hulls=None, in_loop=None):
        envs = self.envs
        idx = list(self.idxvars)
        if newvar is not None:
            envs = tuple(dict(env, **{newvar: hull})
                         for env, hull in zip(self.envs, hulls))
            idx.append(newvar)
        return Scope(envs, idx, self.temps, self.depth + 1,
                     self.in_loop if in_loop is None else in_loop)


class Kernel:
    """A generated tangent-linear kernel and its passive data."""

    def __init__(self):
        self.source = ""
        self.module = ""
        self.routine = ""
        self.active = []
        self.args = []         # list of dict (see case())
        self.n = 0
        self.kind = ""
        self.features = []
        self.harness_ok = True

    def case(self):
        return {"source": self.source, "module": self.module,
                "routine": self.routine, "active": list(self.active),
                "args": self.args, "n": self.n, "kind": self.kind,
                "features": list(self.features),
                "harness_ok": self.harness_ok}


LOOPVARS = ["i", "j", "l", "ii"]
LITS = ["2.0", "0.5", "3.0", "1.5", "4.0"]
DIVLITS = ["2.0", "4.0", "0.5"]
DIV_VALUES = [Fraction(1), Fraction(2), Fraction(-1), Fraction(1, 2),
              Fraction(-2), Fraction(4)]
REAL_VALUES = [Fraction(1), Fraction(0), Fraction(2), Fraction(-1),
               Fraction(3), Fraction(1, 2), Fraction(-2)]


class Gen:
    def __init__(self, draw):
        self.draw = draw
        self.vars = []
        self.locals_decl = []
        self.feat = set()
        self.loopvars_used = set()
        self.ntemp = 0
        self.nitemp = 0
        self.budget = 0
        self.kind = ""

    # -- draw helpers ---------------------------------------------------
    def pick(self, seq):
        seq = list(seq)
        return seq[self.draw(st.integers(0, len(seq) - 1))]

    def chance(self, percent):
        return self.draw(st.integers(0, 99)) >= 100 - percent

    def lit(self, txt):
        return txt + ("_r_def" if self.kind else "")

    # -- variables -----------------------------------------------------
    def by(self, **kw):
        out = []
        for var in self.vars:
            if all(getattr(var, k) == v for k, v in kw.items()):
                out.append(var)
        return out

    def actives(self):
        return [v for v in self.vars if v.active]

    def inside(self, aff, dim, scope):
        """aff within dimension `dim` in both environments?"""
        for env in scope.envs:
            low, high = aff.rng(env)
            if low < dim[0].value(env) or high > dim[1].value(env):
                return False
        return True

    def index(self, dim, scope, novar=False):
        """A subscript (Aff) for dimension `dim` valid in `scope`."""
        varc = []
        if not novar:
            for name in reversed(scope.idxvars):
                for off in (0, 1, -1, 2, -2):
                    aff = Aff({name: 1}, off)
                    if self.inside(aff, dim, scope):
                        varc.append(aff)
                rev = dim[0] + dim[1] - Aff.of(name)
                if self.inside(rev, dim, scope):
                    varc.append(("rev", rev))
        constc = []
        for off in (0, 1, 2):
            aff = dim[0] + off
            if self.inside(aff, dim, scope):
                constc.append(aff)
        for off in (0, 1):
            aff = dim[1] - off
            if self.inside(aff, dim, scope):
                constc.append(aff)
        for var in self.by(typ="int", arg=True):
            if var.name == "n":
                continue
            for off in (0, 1):
                aff = Aff({var.name: 1}, off)
                if self.inside(aff, dim, scope):
                    constc.append(aff)
        if varc and self.chance(80):
            plain = [c for c in varc if not isinstance(c, tuple)]
            revs = [c[1] for c in varc if isinstance(c, tuple)]
            if revs and (not plain or self.chance(8)):
                self.feat.add("rev_index")
                return self.pick(revs)
            return self.pick(plain)
        if not constc:
            raise AssertionError("no subscript candidate")
        return self.pick(constc)

    def elem(self, var, scope, novar=False):
        if not var.dims:
            return var.name
        idx = [self.index(dim, scope, novar).text() for dim in var.dims]
        return f"{var.name}({','.join(idx)})"

    # -- passive coefficients -----------------------------------------
    def coef_atom(self, scope):
        cands = [("lit", None)]
        for var in self.vars:
            if var.typ == "real" and not var.active and var.arg:
                cands.append(("var", var))
        for name in scope.temps:
            cands.append(("tmp", name))
        kind, obj = self.pick(cands)
        if kind == "lit":
            return self.lit(self.pick(LITS))
        if kind == "tmp":
            self.feat.add("temp_use")
            return obj
        return self.elem(obj, scope)

    def coef(self, scope):
        form = self.draw(st.integers(0, 9))
        one = self.coef_atom(scope)
        if form <= 5:
            return one
        two = self.coef_atom(scope)
        if form == 6:
            return f"{one} * {two}"
        if form == 7:
            return f"({one} + {two})"
        if form == 8:
            return f"({one} - {self.lit('1.0')})"
        return f"{one} * {two}"

    def divisor(self, scope):
        cands = [("lit", None)]
        for var in self.vars:
            if var.typ == "real" and not var.active and var.div_ok:
                cands.append(("var", var))
        kind, obj = self.pick(cands)
        self.feat.add("div")
        if kind == "lit":
            return self.lit(self.pick(DIVLITS))
        return self.elem(obj, scope)

    # -- right-hand sides ----------------------------------------------
    def rhs(self, lhs, lhs_var, scope, mkref, mkstencil=None):
        """Sum of terms, each linear in exactly one active reference.
        mkref() -> text of a random active reference conformable with the
        LHS; mkstencil() -> another reference to the LHS variable."""
        nterms = self.pick([2, 1, 3, 2, 2, 0, 4, 1])
        if nterms == 0:
            self.feat.add("zero_rhs")
            return self.lit("0.0")
        terms = []
        used = []

        def newref():
            roll = self.draw(st.integers(0, 99))
            if roll < 20:
                self.feat.add("lhs_on_rhs")
                return lhs
            if roll < 35 and mkstencil is not None:
                ref = mkstencil()
                if ref != lhs:
                    self.feat.add("stencil")
                return ref
            if roll < 45 and used:
                self.feat.add("repeat")
                return self.pick(used)
            return mkref()

        for _ in range(nterms):
            ref = newref()
            used.append(ref)
            form = self.draw(st.integers(0, 13))
            # a subtracted term in the LHS variable is the trigger of a
            # recorded finding: keep it rare so it cannot mask others
            sign = "-" if self.chance(8 if ref == lhs else 25) else "+"
            if form <= 2:
                txt = ref
            elif form == 3:
                txt = f"{self.coef(scope)} * {ref}"
            elif form == 4:
                txt = f"{ref} * {self.coef(scope)}"
            elif form == 5:
                txt = f"{ref} / {self.divisor(scope)}"
            elif form == 6:
                txt = f"{self.coef(scope)} * {ref} / {self.divisor(scope)}"
            elif form == 7:
                ref2 = newref()
                used.append(ref2)
                opr = self.pick(["+", "-"])
                self.feat.add("group")
                txt = f"{self.coef(scope)} * ({ref} {opr} {ref2})"
            elif form == 8:
                ref2 = newref()
                used.append(ref2)
                self.feat.add("group")
                txt = f"({ref} - {ref2}) / {self.divisor(scope)}"
            elif form == 9:
                ref2 = newref()
                used.append(ref2)
                self.feat.add("group")
                sign = "-"
                txt = f"({ref} + {ref2})"
            elif form == 10:
                txt = f"{self.coef(scope)} * {ref} * {self.coef_atom(scope)}"
            elif form == 11:
                self.feat.add("unary_minus")
                txt = f"{ref} * (-{self.coef_atom(scope)})"
            elif form == 12:
                self.feat.add("unary_minus")
                txt = f"(-{ref})"
            else:
                txt = f"{self.coef(scope)} * {ref}"
            if sign == "-":
                self.feat.add("minus")
            terms.append((sign, txt))
        out = ""
        for pos, (sign, txt) in enumerate(terms):
            if pos == 0:
                out = txt if sign == "+" else f"-{txt}"
                if sign == "-":
                    self.feat.add("unary_minus")
            else:
                out = f"{out} {sign} {txt}"
            if pos == 1 and len(terms) > 2 and self.chance(25):
                out = f"({out})"
                self.feat.add("paren_sum")
        return out

    # -- statements ----------------------------------------------------
    def stmts(self, scope, count, ind):
        out = []
        scope = Scope(scope.envs, scope.idxvars, list(scope.temps),
                      scope.depth, scope.in_loop)
        for _ in range(count):
            if self.budget <= 0:
                break
            out.extend(self.stmt(scope, ind))
        if not out:
            out.extend(self.assign(scope, ind))
        return out

    def stmt(self, scope, ind):
        self.budget -= 1
        kinds = ["assign"] * 6 + ["zero", "section", "section", "temp"]
        if scope.depth < 3:
            kinds += ["loop"] * 6 + ["if"] * 3
        if scope.idxvars or True:
            kinds += ["itemp"]
        kind = self.pick(kinds)
        if kind == "assign":
            return self.assign(scope, ind)
        if kind == "zero":
            return self.zero(scope, ind)
        if kind == "section":
            return self.section(scope, ind)
        if kind == "temp":
            return self.temp(scope, ind)
        if kind == "itemp":
            return self.itemp(scope, ind)
        if kind == "loop":
            return self.loop(scope, ind)
        return self.ifblock(scope, ind)

    def assign(self, scope, ind):
        var = self.pick(self.actives())
        affs = [self.index(dim, scope) for dim in var.dims]

        def text(idx):
            if not idx:
                return var.name
            return f"{var.name}({','.join(a.text() for a in idx)})"
        lhs = text(affs)

        def stencil():
            """Another element of the LHS array. Mostly a constant offset
            of the LHS subscript (provably a different element); rarely an
            unrelated subscript, which may designate the LHS element under
            a different spelling (feature 'maybe_alias')."""
            if self.chance(85):
                cands = []
                for pos, dim in enumerate(var.dims):
                    for off in (1, -1, 2, -2):
                        aff = affs[pos] + off
                        if self.inside(aff, dim, scope):
                            cands.append((pos, aff))
                if cands:
                    pos, aff = self.pick(cands)
                    idx = list(affs)
                    idx[pos] = aff
                    return text(idx)
            ref = self.elem(var, scope)
            if ref != lhs:
                self.feat.add("maybe_alias")
            return ref

        def mkref():
            other = self.pick(self.actives())
            if other is var and var.dims:
                return stencil()
            return self.elem(other, scope)

        mkst = stencil if var.dims else None
        return [f"{ind}{lhs} = {self.rhs(lhs, var, scope, mkref, mkst)}"]

    def zero(self, scope, ind):
        var = self.pick(self.actives())
        self.feat.add("zero_rhs")
        if var.dims and self.chance(50):
            self.feat.add("section")
            form = self.pick([var.name, f"{var.name}"
                              f"({','.join(':' for _ in var.dims)})"])
            return [f"{ind}{form} = {self.lit('0.0')}"]
        return [f"{ind}{self.elem(var, scope)} = {self.lit('0.0')}"]

    def temp(self, scope, ind):
        self.ntemp += 1
        name = f"w{self.ntemp}"
        self.feat.add("temp")
        rhs = self.coef(scope)
        if self.chance(30):
            rhs = f"{rhs} + {self.coef_atom(scope)}"
        self.locals_decl.append(("real", name))
        scope.temps.append(name)
        return [f"{ind}{name} = {rhs}"]

    def itemp(self, scope, ind):
        """Passive integer local used as a subscript."""
        cands = []
        for name in scope.idxvars:
            if name.startswith("m"):
                continue
            for off in (1, -1, 0):
                cands.append(Aff({name: 1}, off))
        cands.append(Aff({}, self.pick([1, 2])))
        cands.append(Aff({"n": 1}, self.pick([0, -1])))
        aff = self.pick(cands)
        self.nitemp += 1
        name = f"m{self.nitemp}"
        self.feat.add("int_temp")
        self.locals_decl.append(("integer", name))
        hulls = [aff.rng(env) for env in scope.envs]
        scope.envs = tuple(dict(env, **{name: hull})
                           for env, hull in zip(scope.envs, hulls))
        scope.idxvars.append(name)
        return [f"{ind}{name} = {aff.text()}"]

    def cond(self, scope):
        cands = []
        for var in self.vars:
            if var.active or not var.arg:
                continue
            if var.typ == "log":
                cands.append(var.name)
                cands.append(f".not. {var.name}")
            elif var.typ == "real":
                ref = self.elem(var, scope)
                cands.append(f"{ref} > {self.lit('0.5')}")
                cands.append(f"{ref} < {self.lit('1.0')}")
            elif var.name == "n":
                cands.append("n > 2")
                cands.append("n == 3")
            else:
                cands.append(f"{var.name} == 2")
                cands.append(f"{var.name} < n")
        for name in scope.idxvars:
            cands.append(f"{name} > 1")
            cands.append(f"mod({name}, 2) == 0")
            cands.append(f"{name} == 2")
        if len(scope.idxvars) > 1:
            cands.append(f"{scope.idxvars[0]} /= {scope.idxvars[-1]}")
        one = self.pick(cands)
        if self.chance(15):
            two = self.pick(cands)
            return f"{one} {self.pick(['.and.', '.or.'])} {two}"
        return one

    def ifblock(self, scope, ind):
        self.feat.add("if")
        out = [f"{ind}if ({self.cond(scope)}) then"]
        sub = scope.child()
        out += self.stmts(sub, self.pick([1, 1, 2]), ind + "  ")
        if self.chance(45):
            self.feat.add("else")
            out.append(f"{ind}else")
            out += self.stmts(sub, self.pick([1, 1, 2]), ind + "  ")
        out.append(f"{ind}end if")
        return out

    def loop(self, scope, ind):
        free = [v for v in LOOPVARS if v not in scope.idxvars]
        if not free:
            return self.assign(scope, ind)
        var = free[0]
        self.loopvars_used.add(var)
        mode = self.draw(st.integers(0, 9))
        arrs = [v for v in self.vars if v.dims]
        if mode <= 6 and arrs:
            arr = self.pick(arrs)
            dim = self.pick(arr.dims)
            low = dim[0] + self.pick([0, 0, 1])
            high = dim[1] - self.pick([0, 0, 1])
            if scope.in_loop and self.chance(15):
                outer = [v for v in scope.idxvars if not v.startswith("m")]
                if outer:
                    cand = Aff({self.pick(outer): 1}, self.pick([0, 1, -1]))
                    if self.inside(cand, dim, scope):
                        low = cand
                        self.feat.add("triangular")
        elif mode <= 8:
            low = Aff({}, self.pick([1, 0, 2, -1]))
            high = low + self.pick([2, 1, 3, 0, 4])
        else:
            ints = [v.name for v in self.by(typ="int", arg=True)]
            low = Aff.of(self.pick([1] + ints))
            high = Aff.of(self.pick(ints)) + self.pick([0, 1])
            self.feat.add("passive_bound")
        steps = [None, 1, 2, -1, 3, -2, -3]
        for ivar in self.by(typ="int", arg=True):
            if ivar.name != "n":
                steps.append(ivar.name)
                steps.append("-" + ivar.name)
        step = self.pick(steps)
        negative = (isinstance(step, int) and step < 0) or \
                   (isinstance(step, str) and step.startswith("-"))
        start, stop = (high, low) if negative else (low, high)
        if self.chance(8):
            start, stop = stop, start
            self.feat.add("swapped_bounds")
        if step is not None and step not in (1, -1):
            self.feat.add("nonunit_step")
        if isinstance(step, str):
            self.feat.add("passive_step")
        if negative:
            self.feat.add("neg_step")
        hulls = []
        for env in scope.envs:
            (alo, ahi), (blo, bhi) = start.rng(env), stop.rng(env)
            hulls.append((min(alo, blo), max(ahi, bhi)))
        head = f"{ind}do {var} = {start.text()}, {stop.text()}"
        if step is not None:
            head += f", {step}"
        self.feat.add("nest" if scope.in_loop else "loop")
        sub = scope.child(var, hulls, in_loop=True)
        out = [head]
        out += self.stmts(sub, self.pick([1, 2, 1, 3]), ind + "  ")
        out.append(f"{ind}end do")
        return out

    # -- array-section assignments ------------------------------------
    def sec_ref(self, var, low, high, stride, scope, lens):
        """Reference to `var` with one sectioned dimension conformable
        with low:high:stride (tries offsets); None if impossible."""
        dims = list(range(len(var.dims)))
        for pos in self.draw(st.permutations(dims)):
            dim = var.dims[pos]
            offs = [o for o in (0, 1, -1)
                    if self.inside(low + o, dim, scope) and
                    self.inside(high + o, dim, scope)]
            if not offs:
                continue
            off = self.pick(offs)
            slo, shi = low + off, high + off
            full = all(slo.rng(e) == dim[0].rng(e) and
                       shi.rng(e) == dim[1].rng(e) for e in scope.envs)
            # ':' on an array whose lower bound is not 1 triggers a
            # recorded finding: keep it rare
            colon = 50 if dim[0].text() == "1" else 12
            if full and stride == 1 and self.chance(colon):
                sec = ":"
            else:
                sec = f"{slo.text()}:{shi.text()}"
                if stride != 1:
                    sec += f":{stride}"
            idx = []
            for num, odim in enumerate(var.dims):
                if num == pos:
                    idx.append(sec)
                else:
                    idx.append(self.index(odim, scope).text())
            return f"{var.name}({','.join(idx)})", off
        return None

    def section(self, scope, ind):
        arrs = [v for v in self.actives() if v.dims]
        if not arrs:
            return self.assign(scope, ind)
        var = self.pick(arrs)
        pos = self.draw(st.integers(0, len(var.dims) - 1))
        dim = var.dims[pos]
        low = dim[0] + self.pick([0, 0, 1])
        high = dim[1] - self.pick([0, 0, 1])
        for env in scope.envs:
            if high.value(env) < low.value(env):
                low, high = dim[0], dim[1]
                break
        stride = 2 if self.chance(10) else 1
        self.feat.add("section")
        if stride != 1:
            self.feat.add("strided_section")
        # the LHS must use exactly low:high (offset 0) in dimension `pos`
        idx = []
        full = all(low.rng(e) == dim[0].rng(e) and
                   high.rng(e) == dim[1].rng(e) for e in scope.envs)
        for num, odim in enumerate(var.dims):
            if num == pos:
                colon = 50 if dim[0].text() == "1" else 12
                if full and stride == 1 and self.chance(colon):
                    idx.append(":")
                else:
                    idx.append(f"{low.text()}:{high.text()}" +
                               (f":{stride}" if stride != 1 else ""))
            else:
                idx.append(self.index(odim, scope).text())
        lhs = f"{var.name}({','.join(idx)})"
        if full and len(var.dims) == 1 and stride == 1 and self.chance(30):
            lhs = var.name
            self.feat.add("whole_array")

        def mkref():
            for _ in range(4):
                cand = self.pick(self.actives())
                if not cand.dims:
                    if self.chance(40):
                        self.feat.add("scalar_in_section")
                        return cand.name
                    continue
                if cand is var:
                    continue
                ref = self.sec_ref(cand, low, high, stride, scope, None)
                if ref is not None:
                    return ref[0]
            return lhs

        def mkstencil():
            if not self.chance(50):
                return lhs
            ref = self.sec_ref(var, low, high, stride, scope, None)
            if ref is None or lhs == var.name:
                return lhs
            if ref[1] != 0:
                self.feat.add("section_shifted_self")
            return ref[0]

        # coefficients inside a section assignment: scalars or conformable
        # passive array sections
        saved = self.coef_atom

        def sec_coef_atom(scp):
            parr = [v for v in self.vars if v.typ == "real" and v.dims
                    and not v.active and v.arg]
            if parr and self.chance(35):
                ref = self.sec_ref(self.pick(parr), low, high, stride,
                                   scp, None)
                if ref is not None:
                    self.feat.add("section_coef")
                    return ref[0]
            return saved(scp)
        self.coef_atom = sec_coef_atom
        savediv = self.divisor
        self.divisor = lambda scp: self.lit(self.pick(DIVLITS))
        try:
            rhs = self.rhs(lhs, var, scope, mkref, mkstencil)
        finally:
            self.coef_atom = saved
            self.divisor = savediv
        return [f"{ind}{lhs} = {rhs}"]


@st.composite
def kernels(draw):
    gen = Gen(draw)
    nsmall = gen.pick([3, 2, 4])
    gen.kind = "r_def" if gen.chance(15) else ""
    nval = Aff({"n": 1}, 0)
    one = Aff({}, 1)

    def dims_choices(rank):
        # PSyclone only types dummy-array bounds that are a literal or a
        # plain reference (an expression or a negative literal bound gives
        # an UnsupportedFortranType)
        if rank == 1:
            return gen.pick([[(one, nval)], [(one, nval)],
                             [(Aff({}, 0), nval)], [(one, Aff({}, 4))],
                             [(Aff({}, 0), Aff({}, 3))],
                             [(Aff({}, 2), nval)]])
        return gen.pick([[(one, nval), (one, Aff({}, 2))],
                         [(one, nval), (one, nval)],
                         [(one, Aff({}, 2)), (Aff({}, 0), nval)],
                         [(one, Aff({}, 3)), (one, Aff({}, 3))]])

    env_s = {"n": (nsmall, nsmall)}
    env_b = {"n": (NBIG, NBIG)}
    gen.vars.append(Var("n", "int"))
    # passive integer / logical arguments (make the harness ineligible)
    extra_int = gen.chance(18)
    intvals = {}
    if extra_int:
        for name in ["k1", "k2"][:gen.pick([1, 2])]:
            gen.vars.append(Var(name, "int"))
            val = gen.pick([2, 1, 3])
            intvals[name] = val
            env_s[name] = (val, val)
            env_b[name] = (val, val)
    if gen.chance(8):
        gen.vars.append(Var("lg", "log"))

    def size(dims, env):
        total = 1
        for low, high in dims:
            total *= high.value(env) - low.value(env) + 1
        return total

    # active arguments
    nstate = 0
    nact = gen.pick([2, 3, 2, 4, 3, 1])
    names_arr = ["a", "b", "c", "d"]
    names_sca = ["s", "r", "u"]
    for _ in range(nact):
        if gen.chance(30) and names_sca:
            gen.vars.append(Var(names_sca.pop(0), "real", active=True))
            nstate += 1
            continue
        rank = 2 if gen.chance(25) else 1
        dims = dims_choices(rank)
        if nstate + size(dims, env_s) > 30:
            dims = [(one, nval)]
        if nstate + size(dims, env_s) > 30 or not names_arr:
            continue
        var = Var(names_arr.pop(0), "real", dims, active=True)
        if all(lo.text() == "1" and hi.text() == "n" for lo, hi in dims) \
                and gen.chance(20):
            var.assumed = True
        gen.vars.append(var)
        nstate += size(dims, env_s)
    if not gen.actives():
        gen.vars.append(Var("a", "real", [(one, nval)], active=True))
    # passive real arguments
    for name in ["p", "q"][:gen.pick([1, 2, 0])]:
        gen.vars.append(Var(name, "real", div_ok=gen.chance(60)))
    if gen.chance(60):
        gen.vars.append(Var("pa", "real", dims_choices(1),
                            div_ok=gen.chance(50)))
    if gen.chance(15):
        gen.vars.append(Var("pm", "real", dims_choices(2)))
    # active locals
    local_init = []
    if gen.chance(30):
        gen.vars.append(Var("ts", "real", arg=False, active=True))
        gen.feat.add("local_active")
    if gen.chance(20):
        gen.vars.append(Var("ta", "real", dims_choices(1), arg=False,
                            active=True))
        gen.feat.add("local_active")
    scope = Scope((env_s, env_b))
    ind = "    "
    gen.budget = gen.pick([6, 4, 8, 10, 3, 12])
    for var in gen.by(arg=False, active=True):
        if var.dims:
            form = gen.pick([var.name, f"{var.name}(:)"])
            local_init.append(f"{ind}{form} = {gen.lit('0.0')}")
        elif gen.chance(50):
            local_init.append(f"{ind}{var.name} = {gen.lit('0.0')}")
        else:
            args = [v for v in gen.actives() if v.arg]
            ref = gen.elem(gen.pick(args), scope)
            local_init.append(
                f"{ind}{var.name} = {gen.coef(scope)} * {ref}")
    body = gen.stmts(scope, gen.pick([2, 3, 1, 4, 5]), ind)

    # ---- text ---------------------------------------------------------
    base = gen.pick(["tl_kern", "tl_k", "lin"])
    mod = base + "_mod"
    rout = base + "_code"
    rtype = "real(kind=r_def)" if gen.kind else "real"
    args = [v for v in gen.vars if v.arg]
    lines = [f"module {mod}", "  implicit none"]
    if gen.kind:
        lines.append("  integer, parameter :: r_def = 8")
    lines += ["contains",
              f"  subroutine {rout}({', '.join(v.name for v in args)})"]
    for var in args:
        if var.typ == "int":
            lines.append(f"    integer, intent(in) :: {var.name}")
        elif var.typ == "log":
            lines.append(f"    logical, intent(in) :: {var.name}")
        else:
            intent = "inout" if var.active else "in"
            lines.append(f"    {rtype}, intent({intent}) :: "
                         f"{var.name}{var.decl_dims()}")
    for var in gen.by(arg=False):
        lines.append(f"    {rtype} :: {var.name}{var.decl_dims()}")
    for typ, name in gen.locals_decl:
        lines.append(f"    {rtype if typ == 'real' else typ} :: {name}")
    for name in LOOPVARS:
        if name in gen.loopvars_used:
            lines.append(f"    integer :: {name}")
    lines += local_init + body
    lines += [f"  end subroutine {rout}", f"end module {mod}", ""]

    # ---- passive data -------------------------------------------------
    kern = Kernel()
    kern.source = "\n".join(lines)
    kern.module = mod
    kern.routine = rout
    kern.n = nsmall
    kern.kind = gen.kind
    kern.active = [v.name for v in gen.actives()]
    for var in args:
        bounds = [[lo.value(env_s), hi.value(env_s)] for lo, hi in var.dims]
        total = 1
        for low, high in bounds:
            total *= high - low + 1
        ent = {"name": var.name, "typ": var.typ, "bounds": bounds,
               "bounds_big": [[lo.value(env_b), hi.value(env_b)]
                              for lo, hi in var.dims],
               "active": var.active}
        if var.name == "n":
            ent["data"] = [nsmall]
        elif var.typ == "int":
            ent["data"] = [intvals[var.name]]
        elif var.typ == "log":
            ent["data"] = [draw(st.booleans())]
        elif not var.active:
            pool = DIV_VALUES if var.div_ok else REAL_VALUES
            ent["data"] = [str(gen.pick(pool)) for _ in range(total)]
        kern.args.append(ent)
    kern.harness_ok = not any(v.typ in ("int", "log") and v.name != "n"
                              for v in args)
    kern.features = sorted(gen.feat)
    return kern
