"""Exact evaluator, reference writer and gfortran harness for property C02.

Nothing in this module uses PSyclone: it is the independent side of the
value oracle.

* `evaluate(spec, env)`  exact value of an expression spec (vlib/gen_expr.py)
  with Fortran semantics: Python ints (truncating division, range-checked),
  Fractions for reals (only values that are exactly representable in the
  kind of the Fortran sub-expression are accepted, so that gfortran's result
  is exact too), bools, strings.  Raises Invalid (undefined in Fortran for
  this valuation: division by zero, overflow, subscript out of bounds...)
  or Inexact (result would be rounded).
* `paren_text(spec)`  own fully-parenthesised Fortran rendering of a spec
  (the reference the evaluator is cross-checked against in every batch).
* `GfRunner.run(items)`  compiles one program with hundreds of assignments
  (`gfortran -std=f2008`), runs it for all valuations and returns, per item,
  gfortran's diagnostics for the text under test and the printed values.
"""
from __future__ import annotations

import os
import re
import shutil
import struct
import subprocess
import tempfile
from fractions import Fraction

from vlib import gen_expr as G
from vlib.runner import HarnessError


class Invalid(Exception):
    """The expression has no defined value under this valuation."""


class Inexact(Exception):
    """The value is not exactly representable (no exact comparison)."""


# --------------------------------------------------------------------------
# valuations
# --------------------------------------------------------------------------
NV = 6
_INTS = [[2, 3, 1, 2, 3, 1, 2, 1],
         [3, 2, 2, 1, -1, 2, -2, 3],
         [-2, 1, 3, -1, 2, 2, 1, -3],
         [1, -3, 2, 2, 1, -2, 3, 2],
         [4, 2, -1, 3, -2, 1, 1, 2],
         [-1, 2, 2, -3, 1, 3, -2, 1]]
_LOGS = [[True, False, True, True, False, False, True, False],
         [False, False, True, False, True, True, False, True],
         [True, True, False, False, False, True, True, False],
         [False, True, True, True, False, False, False, True],
         [True, False, False, True, True, False, True, True],
         [False, True, False, False, True, True, False, False]]
_K = [(1, 2), (2, 3), (3, 1), (2, 2), (1, 3), (3, 2)]
_J = [4, -3, 2, 5, -1, 3]
_R = [("3/2", "-1/2", "2"), ("-2", "1/4", "3"), ("1/2", "4", "-3/2"),
      ("-1", "-1/4", "5/2"), ("2", "3/2", "-1/2"), ("3", "-2", "1/2")]
_D = [("1/4", "-3"), ("-1/2", "2"), ("2", "3/2"), ("-4", "1/2"),
      ("3/4", "-2"), ("1", "-1/2")]
_C = ["ab", "b ", "a'", "ab", "zz", "  "]
_RVALS = [Fraction(x) for x in ("1/2", "-3/2", "2", "-1/4", "3", "-2",
                                "5/2", "1", "-1/2", "4", "3/4", "-3")]
_IVALS = [3, -2, 1, 4, -1, 2, -3, 5]


def _struct(val, salt):
    return {"i": _IVALS[(val + salt) % 8],
            "x": _RVALS[(2 * val + salt) % 12],
            "f": (val + salt) % 3 == 0,
            "v": {(j,): _RVALS[(val + 3 * j + salt) % 12]
                  for j in range(1, 4)},
            "sub": {"x": _RVALS[(val + 5 + salt) % 12]}}


def make_env(val):
    env = {}
    for n in range(8):
        env[f"i{n + 1}"] = _INTS[val][n]
        env[f"l{n + 1}"] = _LOGS[val][n]
    env["k1"], env["k2"] = _K[val]
    env["j1"] = _J[val]
    env["r1"], env["r2"], env["r3"] = (Fraction(x) for x in _R[val])
    env["d1"], env["w1"] = (Fraction(x) for x in _D[val])
    env["c1"] = _C[val]
    env["ia"] = {(j,): _IVALS[(val + 2 * j) % 8] for j in range(1, 6)}
    env["ra"] = {(i, j): _RVALS[(val + i + 4 * j) % 12]
                 for i in range(1, 5) for j in range(1, 4)}
    env["la"] = {(j,): (val + j) % 2 == 0 for j in range(1, 4)}
    env["s"] = _struct(val, 1)
    env["sa"] = {(j,): _struct(val, 3 * j + 2) for j in range(1, 3)}
    return env


ENVS = [make_env(v) for v in range(NV)]

# --------------------------------------------------------------------------
# exact evaluation
# --------------------------------------------------------------------------
MANT = {4: 24, 8: 53}
IMAX = {4: 2 ** 31 - 1, 8: 2 ** 63 - 1}


def chk_real(val, kind):
    """val must be exactly representable (and far from over/underflow)."""
    if val == 0:
        return val
    num, den = abs(val.numerator), val.denominator
    if den & (den - 1):
        raise Inexact("not dyadic")
    while num % 2 == 0:
        num //= 2
    if num.bit_length() > MANT[kind]:
        raise Inexact("mantissa")
    if not Fraction(1, 2 ** 40) <= abs(val) <= 2 ** 40:
        raise Inexact("magnitude")
    return val


def chk_int(val, kind):
    if abs(val) > IMAX[kind]:
        raise Invalid("integer overflow")
    return val


def round_literal(text, kind):
    """Value of a real literal constant of the given kind."""
    exact = Fraction(text.lower().replace("d", "e"))
    try:
        return chk_real(exact, kind)
    except Inexact:
        pass
    dbl = float(exact)
    if kind == 4:
        dbl = struct.unpack("f", struct.pack("f", dbl))[0]
    return Fraction(dbl)


def tdiv(num, den):
    quo = abs(num) // abs(den)
    return quo if (num < 0) == (den < 0) else -quo


def to_real(val, typ, kind):
    """Numeric conversion of (val, typ) to real of `kind`."""
    if typ[0] == "i":
        return chk_real(Fraction(val), kind)
    return chk_real(val, kind)


def _index(spec_list, env, shape):
    out = []
    for spec, bound in zip(spec_list, shape):
        val = evaluate(spec, env)
        if not 1 <= val <= bound:
            raise Invalid("subscript out of bounds")
        out.append(val)
    return tuple(out)


def _member(cur, members, env):
    table = G.TT
    for name, idx in members:
        typ, shape = table[name]
        cur = cur[name]
        if shape:
            cur = cur[_index(idx, env, shape)]
        if typ == "tsub":
            table = G.TSUB
    return cur


def ipow(base, expo, kind):
    if expo < 0:
        if base == 0:
            raise Invalid("0 ** negative")
        if base == 1:
            return 1
        if base == -1:
            return -1 if expo % 2 else 1
        return 0
    if expo > 64:
        if base in (0, 1):
            return base
        if base == -1:
            return -1 if expo % 2 else 1
        raise Invalid("integer overflow")
    return chk_int(base ** expo, kind)


def rpow(base, expo, kind):
    if abs(expo) > 64:
        raise Inexact("large exponent")
    if expo >= 0:
        return chk_real(base ** expo, kind)
    if base == 0:
        raise Invalid("0.0 ** negative")
    # computed as 1 / base**|expo|
    inner = chk_real(base ** (-expo), kind)
    return chk_real(1 / inner, kind)


def evaluate(spec, env):
    """Exact value of spec (int | Fraction | bool | str)."""
    kind = spec[0]
    if kind == "lit":
        _, typ, text, _ = spec
        if typ == "int":
            return chk_int(int(text), G.stype(spec)[1])
        if typ == "real":
            return round_literal(text, G.stype(spec)[1])
        if typ == "bool":
            return text == "true"
        return text
    if kind == "ref":
        return env[spec[1]]
    if kind == "arr":
        return env[spec[1]][_index(spec[2], env, G.ARRAYS[spec[1]][1])]
    if kind == "sref":
        return _member(env[spec[1]], spec[2], env)
    if kind == "asref":
        elem = env[spec[1]][_index(spec[2], env, G.STRUCT_ARRAYS[spec[1]])]
        return _member(elem, spec[3], env)
    if kind == "un":
        val = evaluate(spec[2], env)
        if spec[1] == "NOT":
            return not val
        return -val if spec[1] == "MINUS" else val
    if kind == "bin":
        oper = spec[1]
        lty, rty = G.stype(spec[2]), G.stype(spec[3])
        lhs, rhs = evaluate(spec[2], env), evaluate(spec[3], env)
        if oper in G.LOGIC:
            return {"AND": lhs and rhs, "OR": lhs or rhs,
                    "EQV": lhs == rhs, "NEQV": lhs != rhs}[oper]
        if oper in G.REL:
            if lty[0] == "c":
                width = max(len(lhs), len(rhs))
                lhs, rhs = lhs.ljust(width), rhs.ljust(width)
            elif lty[0] != rty[0]:
                # the integer operand is converted to the real's kind
                rkind = lty[1] if lty[0] == "r" else rty[1]
                lhs = to_real(lhs, lty, rkind)
                rhs = to_real(rhs, rty, rkind)
            elif lty[0] == "r":
                rkind = max(lty[1], rty[1])
                lhs, rhs = chk_real(lhs, rkind), chk_real(rhs, rkind)
            return {"EQ": lhs == rhs, "NE": lhs != rhs, "GT": lhs > rhs,
                    "LT": lhs < rhs, "GE": lhs >= rhs,
                    "LE": lhs <= rhs}[oper]
        res_t, res_k = G.stype(spec)
        if oper == "POW":
            if res_t == "i":
                return ipow(lhs, rhs, res_k)
            return rpow(lhs, rhs, res_k)
        if res_t == "i":
            if oper == "DIV":
                if rhs == 0:
                    raise Invalid("integer division by zero")
                return chk_int(tdiv(lhs, rhs), res_k)
            val = {"ADD": lhs + rhs, "SUB": lhs - rhs,
                   "MUL": lhs * rhs}[oper]
            return chk_int(val, res_k)
        lhs = to_real(lhs, lty, res_k)
        rhs = to_real(rhs, rty, res_k)
        if oper == "DIV":
            if rhs == 0:
                raise Invalid("real division by zero")
            return chk_real(lhs / rhs, res_k)
        val = {"ADD": lhs + rhs, "SUB": lhs - rhs, "MUL": lhs * rhs}[oper]
        return chk_real(val, res_k)
    if kind == "call":
        _, name, args, _ = spec
        res_t, res_k = G.stype(spec)
        vals = [evaluate(a, env) for a in args]
        aty = G.stype(args[0])
        if name == "MAX":
            return max(vals)
        if name == "MIN":
            return min(vals)
        if name == "ABS":
            val = abs(vals[0])
            return chk_int(val, res_k) if res_t == "i" else val
        if name == "MOD":
            if vals[1] == 0:
                raise Invalid("MOD by zero")
            if res_t == "i":
                return vals[0] - vals[1] * tdiv(vals[0], vals[1])
            quo = vals[0] / vals[1]
            trunc = tdiv(quo.numerator, quo.denominator)
            return chk_real(vals[0] - vals[1] * trunc, res_k)
        if name == "SIGN":
            if res_t == "r" and vals[1] == 0:
                raise Inexact("sign of a real zero")
            mag = abs(vals[0])
            return mag if vals[1] >= 0 else -mag
        if name == "REAL":
            return to_real(vals[0], aty, res_k)
        if name == "INT":
            if aty[0] == "i":
                return chk_int(vals[0], 4)
            return chk_int(tdiv(vals[0].numerator, vals[0].denominator), 4)
    raise ValueError(f"cannot evaluate {spec!r}")


def values(spec):
    """{valuation index: exact value} for every valuation on which the
    expression is defined and exact, plus a histogram of the reasons for
    the others."""
    out, why = {}, {}
    for val, env in enumerate(ENVS):
        try:
            out[val] = evaluate(spec, env)
        except Invalid:
            why["invalid"] = why.get("invalid", 0) + 1
        except Inexact:
            why["inexact"] = why.get("inexact", 0) + 1
    return out, why


def is_const(spec):
    return all(n[0] not in ("ref", "arr", "sref", "asref")
               for n, _, _ in G.walk(spec))


_REPL = {("i", 4): ["ref", "k1"], ("i", 8): ["ref", "j1"],
         ("r", 4): ["ref", "r1"], ("r", 8): ["ref", "d1"],
         ("l", 1): ["ref", "l1"], ("c", 1): ["ref", "c1"]}


def repair_constants(spec):
    """gfortran folds constant sub-expressions at compile time and rejects
    the whole file when one of them is undefined (1/0, 2**40, MOD(1,0)...).
    Such literal-only subtrees (and literal-only zero divisors) are replaced
    by a variable of the same type: constructive, nothing is discarded."""
    def fn(node):
        if node[0] in ("lit", "ref"):
            return node
        if is_const(node):
            try:
                evaluate(node, ENVS[0])
            except Invalid:
                return list(_REPL[G.stype(node)])
            except Inexact:
                pass
        divisor = None
        if node[0] == "bin" and node[1] == "DIV":
            divisor = 3
        elif node[0] == "call" and node[1] == "MOD":
            divisor = 1
        if divisor is not None:
            div = node[divisor] if divisor == 3 else node[2][1]
            if is_const(div):
                try:
                    zero = evaluate(div, ENVS[0]) == 0
                except (Invalid, Inexact):
                    zero = False
                if zero:
                    repl = list(_REPL[G.stype(div)])
                    if divisor == 3:
                        return ["bin", "DIV", node[2], repl]
                    return ["call", "MOD", [node[2][0], repl], None]
        return node
    return G.transform(spec, fn)


# --------------------------------------------------------------------------
# own reference writer: every operation in brackets
# --------------------------------------------------------------------------
_FOP = {"ADD": "+", "SUB": "-", "MUL": "*", "DIV": "/", "POW": "**",
        "EQ": "==", "NE": "/=", "GT": ">", "LT": "<", "GE": ">=",
        "LE": "<=", "AND": ".AND.", "OR": ".OR.", "EQV": ".EQV.",
        "NEQV": ".NEQV.", "MINUS": "-", "PLUS": "+", "NOT": ".NOT."}


def _lit_text(spec):
    _, typ, text, prec = spec
    if typ == "bool":
        out = f".{text}."
        if prec != "undef":
            out += f"_{prec}"
        return out
    if typ == "char":
        return "'" + text.replace("'", "''") + "'"
    sign = ""
    if text[0] in "+-":
        sign, text = text[0], text[1:]
    if typ == "real":
        text = text.lower()
        if "." not in text and "e" not in text:
            text += ".0"
        if prec == "double":
            text = text.replace("e", "d") if "e" in text else text + "d0"
    if prec not in ("undef", "single", "double"):
        text += f"_{prec}"
    return f"({sign}{text})" if sign else text


def _members_text(members):
    out = ""
    for name, idx in members:
        out += "%" + name
        if idx:
            out += "(" + ",".join(paren_text(i) for i in idx) + ")"
    return out


def paren_text(spec):
    kind = spec[0]
    if kind == "lit":
        return _lit_text(spec)
    if kind == "ref":
        return spec[1]
    if kind == "arr":
        return spec[1] + "(" + ",".join(paren_text(i) for i in spec[2]) + ")"
    if kind == "sref":
        return spec[1] + _members_text(spec[2])
    if kind == "asref":
        return (spec[1] + "(" + ",".join(paren_text(i) for i in spec[2]) +
                ")" + _members_text(spec[3]))
    if kind == "un":
        return f"({_FOP[spec[1]]} {paren_text(spec[2])})"
    if kind == "bin":
        return (f"({paren_text(spec[2])} {_FOP[spec[1]]} "
                f"{paren_text(spec[3])})")
    if kind == "call":
        args = [paren_text(a) for a in spec[2]]
        if spec[3] is not None:
            args.append(f"kind={spec[3]}")
        return f"{spec[1]}(" + ", ".join(args) + ")"
    raise ValueError(f"bad spec {spec!r}")


# --------------------------------------------------------------------------
# the Fortran wrapper
# --------------------------------------------------------------------------
def _ftype(typ):
    tch, kind = typ
    if tch == "i":
        return f"integer(kind={kind})"
    if tch == "r":
        return f"real(kind={kind})"
    if tch == "l":
        return "logical"
    return "character(len=2)"


def _fval(val, typ):
    tch, kind = typ
    if tch == "i":
        return f"{val}_{kind}"
    if tch == "r":
        num, den = val.numerator, val.denominator
        return f"({num}.0_{kind} / {den}.0_{kind})"
    if tch == "l":
        return ".true." if val else ".false."
    return "'" + val.replace("'", "''") + "'"


def data_module():
    """Fortran module declaring every entity of gen_expr and the routine
    that installs valuation number v."""
    out = ["module c02_data", "implicit none"]
    for name, val in G.KIND_PARAMS.items():
        out.append(f"integer, parameter :: {name} = {val}")
    out += ["type :: tsub", "real(kind=4) :: x", "end type tsub",
            "type :: t"]
    for name, (typ, shape) in G.TT.items():
        if typ == "tsub":
            out.append(f"type(tsub) :: {name}")
        else:
            dims = "(" + ",".join(map(str, shape)) + ")" if shape else ""
            out.append(f"{_ftype(typ)} :: {name}{dims}")
    out.append("end type t")
    for name, typ in G.SCALARS.items():
        out.append(f"{_ftype(typ)} :: {name}")
    for name, (typ, shape) in G.ARRAYS.items():
        out.append(f"{_ftype(typ)} :: {name}(" +
                   ",".join(map(str, shape)) + ")")
    for name in G.STRUCTS:
        out.append(f"type(t) :: {name}")
    for name, shape in G.STRUCT_ARRAYS.items():
        out.append(f"type(t) :: {name}(" + ",".join(map(str, shape)) + ")")
    out += ["integer :: vbit", "contains", "subroutine setvals(v)",
            "integer, intent(in) :: v", "vbit = 2**(v-1)",
            "select case (v)"]

    def put_struct(prefix, sval):
        for name, (typ, shape) in G.TT.items():
            if typ == "tsub":
                out.append(f"{prefix}%{name}%x = "
                           f"{_fval(sval[name]['x'], ('r', 4))}")
            elif shape:
                for idx, val in sorted(sval[name].items()):
                    sub = ",".join(map(str, idx))
                    out.append(f"{prefix}%{name}({sub}) = {_fval(val, typ)}")
            else:
                out.append(f"{prefix}%{name} = {_fval(sval[name], typ)}")
    for val, env in enumerate(ENVS):
        out.append(f"case ({val + 1})")
        for name, typ in G.SCALARS.items():
            out.append(f"{name} = {_fval(env[name], typ)}")
        for name, (typ, _) in G.ARRAYS.items():
            for idx, elem in sorted(env[name].items()):
                sub = ",".join(map(str, idx))
                out.append(f"{name}({sub}) = {_fval(elem, typ)}")
        for name in G.STRUCTS:
            put_struct(name, env[name])
        for name in G.STRUCT_ARRAYS:
            for idx, sval in sorted(env[name].items()):
                put_struct(f"{name}({idx[0]})", sval)
    out += ["end select", "end subroutine setvals",
            # results of one group: printed here so that the batches
            # contain no I/O statement at all (expensive to compile)
            "subroutine c02_print(g, n, v, st, vi, vr, vl)",
            "integer, intent(in) :: g, n, v, st(n)",
            "integer(kind=8), intent(in) :: vi(n)",
            "real(kind=8), intent(in) :: vr(n)",
            "logical, intent(in) :: vl(n)", "integer :: j",
            "do j = 1, n", "select case (st(j))", "case (1)",
            "write(*,'(I0,1X,I0,1X,I0,1X,I0)') g, j, v, vi(j)", "case (2)",
            "write(*,'(I0,1X,I0,1X,I0,1X,ES24.16E3)') g, j, v, vr(j)",
            "case (3)", "write(*,'(I0,1X,I0,1X,I0,1X,L1)') g, j, v, vl(j)",
            "end select", "end do", "end subroutine c02_print",
            "end module c02_data"]
    return out


_LOC = re.compile(r"^(\S+?):(\d+):(\d+):\s*$")
GROUP = 60        # items per generated subroutine


class GfRunner:
    """Batched compile-and-run of expression texts."""

    def __init__(self):
        self.gfortran = shutil.which("gfortran")
        if not self.gfortran:
            raise HarnessError("gfortran not found")
        self.tmp = tempfile.mkdtemp(prefix="verif_c02_")
        self.compiles = 0
        self.executions = 0
        self.seq = 0
        # the data module is compiled once and linked into every batch
        src = os.path.join(self.tmp, "c02_data.f90")
        with open(src, "w") as fout:
            fout.write("\n".join(data_module()) + "\n")
        proc = subprocess.run(
            [self.gfortran, "-O0", "-std=f2008", "-w", "-c", src],
            capture_output=True, text=True, cwd=self.tmp, timeout=1800)
        if proc.returncode != 0:
            self.close()
            raise HarnessError("data module does not compile:\n" +
                               proc.stderr[-2000:])

    def close(self):
        shutil.rmtree(self.tmp, ignore_errors=True)

    # ---- source generation ---------------------------------------------
    @staticmethod
    def _source(items, skip_p):
        """items: list of dicts(id, ptext|None, ftext|None, rtype, mask,
        risky).  Returns (lines, {line number: (id, 'P'|'F')}, {(group,
        slot): (id, tag)}, groups) with groups = [[item, ...], ...]: the
        items that are not `risky` in chunks of GROUP, then every risky item
        in a group of its own (the executable runs the groups named on its
        command line, so a crash - integer division by zero in a wrongly
        grouped text - costs one process, not a recompilation).

        Results are stored in arrays and printed after the last assignment
        of a group (one WRITE per group and type instead of one per
        expression: gfortran's code generation for I/O statements dominated
        the compile time)."""
        where, slots = {}, {}
        lines = ["module c02_ev", "use c02_data", "implicit none",
                 "contains"]
        safe = [it for it in items if not it.get("risky")]
        groups = [safe[i:i + GROUP] for i in range(0, len(safe), GROUP)]
        groups += [[it] for it in items if it.get("risky")]
        var = {"i": "vi", "r": "vr", "l": "vl"}
        code = {"i": 1, "r": 2, "l": 3}
        for gno, group in enumerate(groups):
            body = []
            nslot = 0
            for item in group:
                rty = item["rtype"]
                stmts = []
                for tag, text in (("P", item["ptext"]), ("F", item["ftext"])):
                    if text is None or (tag == "P" and item["id"] in skip_p):
                        continue
                    nslot += 1
                    slots[(gno, nslot)] = (item["id"], tag)
                    stmts.append((f"{var[rty]}({nslot}) = {text}",
                                  (item["id"], tag)))
                    stmts.append((f"st({nslot}) = {code[rty]}", None))
                if stmts:
                    body.append((f"if (iand(vbit, {item['mask']}) /= 0) "
                                 f"then", None))
                    body.extend(stmts)
                    body.append(("end if", None))
            dim = max(nslot, 1)
            lines += [f"subroutine ev_{gno}(v)",
                      "integer, intent(in) :: v",
                      f"integer(kind=8) :: vi({dim})",
                      f"real(kind=8) :: vr({dim})",
                      f"logical :: vl({dim})",
                      f"integer :: st({dim})", "st = 0"]
            for text, mark in body:
                lines.append(text)
                if mark is not None:
                    where[len(lines)] = mark
            lines += [f"call c02_print({gno}, {dim}, v, st, vi, vr, vl)",
                      f"end subroutine ev_{gno}"]
        lines += ["end module c02_ev", "program c02_main", "use c02_data",
                  "use c02_ev", "implicit none", "integer :: v, g, g0, g1",
                  "character(len=16) :: arg",
                  "call get_command_argument(1, arg)", "read(arg, *) g0",
                  "call get_command_argument(2, arg)", "read(arg, *) g1",
                  f"do v = 1, {NV}", "call setvals(v)", "do g = g0, g1",
                  "select case (g)"]
        for gno in range(len(groups)):
            lines += [f"case ({gno})", f"call ev_{gno}(v)"]
        lines += ["end select", "end do", "end do", "end program c02_main"]
        return lines, where, slots, groups

    def _compile(self, lines):
        self.seq += 1
        self.compiles += 1
        src = os.path.join(self.tmp, f"b{self.seq}.f90")
        exe = os.path.join(self.tmp, f"b{self.seq}.x")
        with open(src, "w") as fout:
            fout.write("\n".join(lines) + "\n")
        proc = subprocess.run(
            [self.gfortran, "-O0", "-std=f2008", "-ffree-line-length-none",
             "-fmax-errors=0", "-w", "-J", self.tmp, src, "c02_data.o",
             "-o", exe],
            capture_output=True, text=True, cwd=self.tmp, timeout=1800)
        errors = []          # (line, message)
        loc = None
        for line in proc.stderr.splitlines():
            mat = _LOC.match(line)
            if mat:
                loc = int(mat.group(2))
            elif line.startswith(("Error:", "Fatal Error:")):
                errors.append((loc, line))
        if proc.returncode != 0 and not errors:
            raise HarnessError("gfortran failed without a located error:\n" +
                               proc.stderr[-2000:])
        try:
            os.unlink(src)
        except OSError:
            pass
        return (exe if proc.returncode == 0 else None), errors, proc.stderr

    def _execute(self, exe, first, last):
        proc = subprocess.run([exe, str(first), str(last)],
                              capture_output=True, text=True,
                              cwd=self.tmp, timeout=1800)
        self.executions += 1
        return proc.returncode, proc.stdout, proc.stderr

    # ---- public ---------------------------------------------------------
    def run(self, items):
        """Returns {id: {"perr": msg|None, "P": {v: text}, "F": {v: text},
        "crash": bool}}.  Raises HarnessError when the *reference* text of
        an item does not compile, or crashes."""
        res = {it["id"]: {"perr": None, "P": {}, "F": {}, "crash": False}
               for it in items}
        skip_p = set()
        exe = None
        for _ in range(6):
            lines, where, slots, groups = self._source(items, skip_p)
            exe, errors, stderr = self._compile(lines)
            if exe:
                break
            progress = False
            for lno, msg in errors:
                if "Cannot open module file" in msg:
                    continue      # consequence of an error in c02_ev
                if lno not in where:
                    raise HarnessError(
                        f"gfortran error outside any expression (line "
                        f"{lno}: {lines[lno - 1] if lno else ''}): {msg}\n"
                        + stderr[-1500:])
                iid, tag = where[lno]
                if tag == "F":
                    raise HarnessError(
                        f"reference text rejected by gfortran: "
                        f"{lines[lno - 1]!r}: {msg}")
                if iid not in skip_p:
                    skip_p.add(iid)
                    res[iid]["perr"] = msg
                    progress = True
            if not progress:
                raise HarnessError("no progress removing rejected "
                                   "expressions:\n" + stderr[-1500:])
        if not exe:
            raise HarnessError("could not obtain a compiling batch")

        def collect(out):
            for line in out.splitlines():
                parts = line.split(None, 3)
                try:
                    iid, tag = slots[(int(parts[0]), int(parts[1]))]
                    res[iid][tag][int(parts[2]) - 1] = parts[3].strip()
                except (KeyError, ValueError, IndexError) as err:
                    raise HarnessError(
                        f"unexpected program output {line!r}") from err

        def crashed(gno, err):
            """Group gno (run on its own) crashed."""
            group = groups[gno]
            if len(group) > 1:
                # unexpected crash among the non-risky items: isolate it
                sub = self.run([dict(it, risky=True) for it in group])
                for iid, val in sub.items():
                    if res[iid]["perr"] is None:
                        res[iid] = val
                return
            item = group[0]
            if item["ptext"] is None or item["id"] in skip_p:
                raise HarnessError(
                    f"reference program crashed: {item['ftext']!r} "
                    f"{err[-500:]}")
            if item["ftext"] is not None:
                # which of the two texts crashed?  (raises on a crash)
                ref = self.run([dict(item, ptext=None)])
                res[item["id"]]["F"] = ref[item["id"]]["F"]
            res[item["id"]]["crash"] = True
            sig = [ln for ln in err.splitlines() if "signal" in ln]
            res[item["id"]]["crash_msg"] = (sig[0] if sig
                                            else err.strip()[-120:]).strip()

        def run_range(first, last):
            """Groups first..last in one process; on a crash the range is
            halved (no recompilation) until the crashing groups are
            isolated.  Output of a crashed process is discarded."""
            if first > last:
                return
            code, out, err = self._execute(exe, first, last)
            if code == 0:
                collect(out)
            elif first == last:
                crashed(first, err)
            else:
                mid = (first + last) // 2
                run_range(first, mid)
                run_range(mid + 1, last)

        nsafe = sum(1 for grp in groups if not grp[0].get("risky"))
        try:
            run_range(0, nsafe - 1)
            run_range(nsafe, len(groups) - 1)
        finally:
            try:
                os.unlink(exe)
            except OSError:
                pass
        return res


def parse_value(text, rtype):
    """Printed value -> exact Python value (None when unparsable)."""
    try:
        if rtype == "i":
            return int(text)
        if rtype == "l":
            return {"T": True, "F": False}[text]
        val = float(text)
        if val != val or val in (float("inf"), float("-inf")):
            return None
        return Fraction(val)
    except (ValueError, KeyError):
        return None
