"""A checking PSyData library (Fortran text) for C28.

For every PSyData prefix ('' 'profile_' 'extract_' 'nan_test_'
'read_only_verify_') a module <prefix>psy_data_mod with a type
<prefix>PSyDataType implementing the PSyData API. Every call is traced on
stdout; a module-level stack records the open regions so that protocol
violations are printed as 'PSYDATA-ERROR ...' lines.
"""

PREFIXES = ["", "profile_", "extract_", "nan_test_", "read_only_verify_"]

TRACE_MOD = '''
module psydata_trace_mod
  implicit none
  integer :: depth_ = 0
  character(len=80) :: stack_(200)
contains
  subroutine psd_enter(name, active)
    character(len=*), intent(in) :: name
    logical, intent(inout) :: active
    if (active) write(*,'(a,a)') 'PSYDATA-ERROR reenter ', trim(name)
    active = .true.
    depth_ = depth_ + 1
    if (depth_ <= 200) stack_(depth_) = name
    write(*,'(a,a)') 'PSYDATA-ENTER ', trim(name)
  end subroutine psd_enter
  subroutine psd_leave(name, active)
    character(len=*), intent(in) :: name
    logical, intent(inout) :: active
    if (.not. active) then
      write(*,'(a,a)') 'PSYDATA-ERROR leave-without-enter ', trim(name)
    else if (depth_ < 1) then
      write(*,'(a,a)') 'PSYDATA-ERROR leave-empty-stack ', trim(name)
    else
      if (trim(stack_(min(depth_, 200))) /= trim(name)) &
        write(*,'(a,a,a,a)') 'PSYDATA-ERROR leave-not-innermost ', &
          trim(name), ' open: ', trim(stack_(min(depth_, 200)))
      depth_ = depth_ - 1
    end if
    active = .false.
    write(*,'(a,a)') 'PSYDATA-LEAVE ', trim(name)
  end subroutine psd_leave
  subroutine psd_call(what, name, active, stage, lo, hi)
    character(len=*), intent(in) :: what, name
    logical, intent(in) :: active
    integer, intent(inout) :: stage
    integer, intent(in) :: lo, hi
    if (.not. active) write(*,'(a,a,a,a)') 'PSYDATA-ERROR ', what, &
        ' outside region ', trim(name)
    if (stage < lo) write(*,'(a,a,a,a)') 'PSYDATA-ERROR ', what, &
        ' out of protocol order in ', trim(name)
    if (hi > stage) stage = hi
  end subroutine psd_call
end module psydata_trace_mod
'''

MOD_TEMPLATE = '''
module @P@psy_data_mod
  use psydata_trace_mod
  implicit none
  type :: @P@PSyDataType
    character(len=80) :: name = ''
    logical :: active = .false.
    integer :: stage = 0
  contains
    procedure :: PreStart => @Q@PreStart
    procedure :: PreDeclareVariable => @Q@PreDeclareVariable
    procedure :: PreEndDeclaration => @Q@PreEndDeclaration
    procedure :: ProvideVariable => @Q@ProvideVariable
    procedure :: PreEnd => @Q@PreEnd
    procedure :: PostStart => @Q@PostStart
    procedure :: PostEnd => @Q@PostEnd
  end type @P@PSyDataType
contains
  subroutine @Q@PreStart(this, module_name, region_name, npre, npost)
    class(@P@PSyDataType), intent(inout), target :: this
    character(len=*), intent(in) :: module_name, region_name
    integer, intent(in) :: npre, npost
    this%name = trim(module_name) // ':' // trim(region_name)
    this%stage = 1
    call psd_enter(this%name, this%active)
  end subroutine
  subroutine @Q@PreDeclareVariable(this, name, value)
    class(@P@PSyDataType), intent(inout), target :: this
    character(len=*), intent(in) :: name
    type(*), dimension(..), intent(in) :: value
    call psd_call('PreDeclareVariable', this%name, this%active, this%stage, 1, 1)
  end subroutine
  subroutine @Q@PreEndDeclaration(this)
    class(@P@PSyDataType), intent(inout), target :: this
    call psd_call('PreEndDeclaration', this%name, this%active, this%stage, 1, 2)
  end subroutine
  subroutine @Q@ProvideVariable(this, name, value)
    class(@P@PSyDataType), intent(inout), target :: this
    character(len=*), intent(in) :: name
    type(*), dimension(..), intent(in) :: value
    call psd_call('ProvideVariable', this%name, this%active, this%stage, 2, 2)
  end subroutine
  subroutine @Q@PreEnd(this)
    class(@P@PSyDataType), intent(inout), target :: this
    call psd_call('PreEnd', this%name, this%active, this%stage, 2, 3)
  end subroutine
  subroutine @Q@PostStart(this)
    class(@P@PSyDataType), intent(inout), target :: this
    call psd_call('PostStart', this%name, this%active, this%stage, 1, 4)
  end subroutine
  subroutine @Q@PostEnd(this)
    class(@P@PSyDataType), intent(inout), target :: this
    call psd_leave(this%name, this%active)
    this%stage = 0
  end subroutine
end module @P@psy_data_mod
'''


def library_text():
    out = [TRACE_MOD]
    for pre in PREFIXES:
        out.append(MOD_TEMPLATE.replace("@P@", pre).replace(
            "@Q@", (pre or "plain_")))
    return "\n".join(out) + "\n"


def check_trace(stdout):
    """Validate the PSYDATA lines of one driver run. Returns None or a
    message. At every 'CASE' line (printed after the routine returned)
    no region may be open."""
    stack = []
    for line in stdout.splitlines():
        if line.startswith("PSYDATA-ERROR"):
            return line.strip()
        if line.startswith("PSYDATA-ENTER"):
            stack.append(line.split(None, 1)[1].strip())
        elif line.startswith("PSYDATA-LEAVE"):
            name = line.split(None, 1)[1].strip()
            if not stack or stack[-1] != name:
                return (f"LEAVE {name} does not match innermost open "
                        f"region {stack[-1] if stack else None}")
            stack.pop()
        elif line.startswith("CASE"):
            if stack:
                return (f"routine returned with region(s) still open: "
                        f"{stack}")
    if stack:
        return f"program ended with region(s) still open: {stack}"
    return None
