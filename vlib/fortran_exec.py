"""Batched gfortran compile-and-run (the ground-truth oracle for Fortran).

run_units(units, ...) takes a list of (uid, module_text, driver_sub_text) and
returns {uid: Result}. Units are compiled ~BATCH at a time into one
executable; a batch that does not compile is bisected so that one bad unit
cannot mask the others.
"""
from __future__ import annotations

import os
import shutil
import subprocess
import tempfile

from vlib import gen_fortran

BATCH = 60
FFLAGS = ["-O0", "-fimplicit-none", "-fcheck=bounds,do", "-ffpe-trap=invalid,zero",
          "-fmax-errors=0", "-ffree-line-length-none", "-w",
          # make reads of never-assigned locals visible instead of random
          "-finit-integer=-7777777", "-finit-real=snan"]


class Result:
    def __init__(self, compiled, stdout="", stderr="", rc=None, messages=""):
        self.compiled = compiled
        self.stdout = stdout
        self.stderr = stderr
        self.rc = rc
        self.messages = messages

    @property
    def ok(self):
        return self.compiled and self.rc == 0

    def __repr__(self):
        return (f"Result(compiled={self.compiled}, rc={self.rc}, "
                f"out={self.stdout[:80]!r}, err={self.stderr[:200]!r}, "
                f"msg={self.messages[:300]!r})")


class Workdir:
    """Scratch directory removed on exit."""

    def __init__(self, prefix="verif-"):
        self.path = tempfile.mkdtemp(prefix=prefix)

    def __enter__(self):
        return self.path

    def __exit__(self, *exc):
        shutil.rmtree(self.path, ignore_errors=True)


def _compile(workdir, name, text, extra):
    src = os.path.join(workdir, name + ".f90")
    exe = os.path.join(workdir, name + ".x")
    with open(src, "w") as fout:
        fout.write(text)
    moddir = os.path.join(workdir, name + "_mod")
    os.makedirs(moddir, exist_ok=True)
    cmd = ["gfortran"] + FFLAGS + list(extra) + ["-J", moddir, src, "-o", exe]
    proc = subprocess.run(cmd, capture_output=True, text=True, cwd=workdir)
    shutil.rmtree(moddir, ignore_errors=True)
    return proc.returncode == 0, exe, proc.stderr


def _run(exe, arg, env=None, timeout=60):
    try:
        proc = subprocess.run([exe, str(arg)], capture_output=True, text=True,
                              timeout=timeout, env=env)
        return proc.returncode, proc.stdout, proc.stderr
    except subprocess.TimeoutExpired:
        return -999, "", "TIMEOUT"


_counter = [0]


def _do_batch(workdir, units, extra, env, results, prelude=""):
    _counter[0] += 1
    name = f"b{_counter[0]}"
    text = prelude + "".join(mod + "\n" + drv + "\n" for _, mod, drv in units)
    text += gen_fortran.main_program([uid for uid, _, _ in units])
    okc, exe, msgs = _compile(workdir, name, text, extra)
    if not okc:
        if len(units) == 1:
            results[units[0][0]] = Result(False, messages=msgs)
            return
        mid = len(units) // 2
        _do_batch(workdir, units[:mid], extra, env, results, prelude)
        _do_batch(workdir, units[mid:], extra, env, results, prelude)
        return
    for num, (uid, _, _) in enumerate(units):
        rcode, out, err = _run(exe, num, env=env)
        results[uid] = Result(True, out, err, rcode)
    try:
        os.remove(exe)
    except OSError:
        pass


def run_units(units, extra_flags=(), env=None, workdir=None, batch=BATCH,
              prelude=""):
    """units: list of (uid, module_text, driver_sub_text). uids must be
    unique and be the ones used inside the texts (m<uid>, drv<uid>)."""
    results = {}
    own = None
    if workdir is None:
        own = tempfile.mkdtemp(prefix="verif-fx-")
        workdir = own
    try:
        for start in range(0, len(units), batch):
            _do_batch(workdir, units[start:start + batch], extra_flags, env,
                      results, prelude)
    finally:
        if own:
            shutil.rmtree(own, ignore_errors=True)
    return results


def syntax_check(texts, extra_flags=(), std=None):
    """Compile each text with -fsyntax-only, batched: returns list of
    (ok, messages). Texts must have unique program-unit names."""
    out = [None] * len(texts)
    with Workdir("verif-syn-") as wdir:
        def rec(idxs):
            src = os.path.join(wdir, "s.f90")
            with open(src, "w") as fout:
                for i in idxs:
                    fout.write(texts[i] + "\n")
            cmd = ["gfortran", "-fsyntax-only", "-fimplicit-none",
                   "-ffree-line-length-none", "-fmax-errors=0", "-w",
                   "-J", wdir] + list(extra_flags)
            if std:
                cmd.append(f"-std={std}")
            proc = subprocess.run(cmd + [src], capture_output=True, text=True,
                                  cwd=wdir)
            if proc.returncode == 0:
                for i in idxs:
                    out[i] = (True, "")
            elif len(idxs) == 1:
                out[idxs[0]] = (False, proc.stderr)
            else:
                mid = len(idxs) // 2
                rec(idxs[:mid])
                rec(idxs[mid:])
        if texts:
            rec(list(range(len(texts))))
    return out


def parse_output(stdout):
    """stdout of a driver -> {case: {var: [values]}} with floats parsed."""
    cases = {}
    cur = None
    for line in stdout.splitlines():
        parts = line.split()
        if not parts:
            continue
        if parts[0] == "CASE":
            cur = cases.setdefault(int(parts[1]), {})
            continue
        if cur is None:
            cases.setdefault(0, {}).setdefault("_pre", []).append(line)
            continue
        vals = []
        for tok in parts[1:]:
            if tok in ("T", "F"):
                vals.append(tok == "T")
            else:
                try:
                    vals.append(int(tok))
                except ValueError:
                    try:
                        vals.append(float(tok))
                    except ValueError:
                        vals.append(tok)
        cur.setdefault(parts[0], []).extend(vals)
    return cases
