"""Independent model of Fortran free-form source form for property C18.

`logical_items(text)` turns a free-form text into the sequence of things a
Fortran (+OpenMP/OpenACC) processor sees once continuation lines are joined:

    ("stmt", (tok, ...))        one logical statement line (may hold `;`)
    ("omp"|"acc", (tok, ...))   one directive, sentinel removed
    ("comment", text)           one comment (full-line or trailing)
    ("error", why)              the text violates the source form

Nothing in here is derived from psyclone.line_length.  Rules implemented
(Fortran 2008 3.3.2, OpenMP 5.x 2.1.2 / OpenACC 2.1 free source form):

* `!` outside character context starts a comment that runs to end of line;
  inside a comment nothing (`&`, quotes) has a meaning.
* Non-character context is continued when `&` is the last non-blank
  character of the line or the last one before a `!` comment.  Character
  context is continued when `&` is the last non-blank character of the line
  (a `!` is an ordinary character there).
* Comment lines and blank lines between a line and its continuation are
  skipped (comments are still reported).
* If the first non-blank character of the continuation line is `&` the
  statement resumes with the character after it (a split lexical token or
  character literal is glued back together); this `&` is mandatory in
  character context.  Without it the continuation starts in column 1 and no
  token can span the break (modelled as a blank).
* A `&` as first non-blank character of a line that continues nothing, a
  `&` in the middle of non-character text, and an unterminated character
  literal are source-form errors.
* A directive line starts (after blanks) with `!$omp`/`!$acc` (any case)
  followed by blank, `&` or end of line.  It is continued when its last
  non-blank character (before an optional `!` comment) is `&`; the next line
  must then be a directive line with the same sentinel, optionally followed
  by blanks and one `&`.  The parts are separated by white space.
* Comments have no continuation in Fortran.  The one convention recognised is
  the limiter's own: a full-line comment whose text starts with `!& `
  continues the full-line comment immediately before it (applied to both
  sides of every comparison, so it can only hide a difference if a comment
  is split exactly there).

Tokenisation: character literals are single tokens kept byte-identical
(including their quotes); outside literals white space only separates
tokens.  Words are maximal `[A-Za-z0-9_]` runs, `.name.` operators and the
multi-character operators of the standard are single tokens, everything
else is a single-character token.  Comment text is compared after removing
indentation and trailing blanks only.
"""
import re

_SENT = re.compile(r"[ \t]*!\$(omp|acc)(?=[ \t&]|$)", re.I)
_LEX = re.compile(
    r"""[ \t]+
      | [A-Za-z0-9_]+
      | \.[A-Za-z]+\.
      | \*\* | // | == | /= | <= | >= | => | :: | \(/ | /\)
      | .""", re.X | re.S)


def lex_code(code):
    """Tokens of a piece of non-character-context text."""
    return [m.group(0) for m in _LEX.finditer(code) if m.group(0).strip()]


class _Stmt:
    """A statement under construction: pieces of code text and literals."""

    def __init__(self):
        self.pieces = []       # [kind, text]; kind 'c' code, 'l' literal
        self.open = False      # last piece is a literal that is still open
        self.quote = None      # quote character of the open literal

    def code(self, text):
        if self.pieces and self.pieces[-1][0] == "c":
            self.pieces[-1][1] += text
        else:
            self.pieces.append(["c", text])

    def tokens(self):
        toks = []
        for kind, text in self.pieces:
            if kind == "l":
                toks.append(text)
            else:
                toks.extend(lex_code(text))
        return tuple(toks)


def _scan(stmt, line, pos):
    """Scan line[pos:] into stmt.  Returns (continued, comment, error)."""
    n = len(line)
    code_start = pos
    while pos < n:
        ch = line[pos]
        if stmt.open:
            lit = stmt.pieces[-1]
            if ch == stmt.quote:
                if pos + 1 < n and line[pos + 1] == stmt.quote:
                    lit[1] += ch + ch
                    pos += 2
                    continue
                lit[1] += ch
                stmt.open = False
                stmt.quote = None
                pos += 1
                code_start = pos
                continue
            if ch == "&" and not line[pos + 1:].strip(" \t"):
                return True, None, None
            lit[1] += ch
            pos += 1
            continue
        # ---- non-character context
        if ch in "'\"":
            stmt.code(line[code_start:pos])
            stmt.pieces.append(["l", ch])
            stmt.open = True
            stmt.quote = ch
            pos += 1
            continue
        if ch == "!":
            stmt.code(line[code_start:pos])
            return False, line[pos:], None
        if ch == "&":
            rest = line[pos + 1:].lstrip(" \t")
            stmt.code(line[code_start:pos])
            if not rest:
                return True, None, None
            if rest[0] == "!":
                return True, rest, None
            return False, None, "'&' inside non-character text"
        pos += 1
    if stmt.open:
        return False, None, "unterminated character literal"
    stmt.code(line[code_start:n])
    return False, None, None


def _norm_comment(text):
    # trailing blanks are removed only once the comment is complete
    return text.lstrip(" \t")


def logical_items(text, info=None):
    """Sequence of logical items of a free-form text (see module doc).

    If `info` is a list, one dict per physical line is appended to it:
    kind ('blank', 'comment', 'omp', 'acc', 'stmt') and ccol, the column of
    the `!` starting a trailing comment on a statement/directive line;
    directive continuation lines also carry continues=True, lead_amp (is
    the optional `&` after the sentinel present) and sent_end."""
    items = []
    if info is None:
        info = []
    last_full_comment = None        # index in items of preceding full-line
    #                                 comment if it is the previous line
    stmt = None                     # open _Stmt (continued)
    direc = None                    # open directive: [kind, text]

    def add_comment(ctext, full):
        nonlocal last_full_comment
        ctext = _norm_comment(ctext)
        if (full and last_full_comment is not None
                and ctext.startswith("!& ")):
            kind, prev = items[last_full_comment]
            items[last_full_comment] = (kind, prev + ctext[3:])
            return
        items.append(("comment", ctext))
        last_full_comment = len(items) - 1 if full else None

    def close_direc():
        nonlocal direc
        items.append((direc[0], tuple(lex_code(direc[1]))))
        direc = None

    for line in text.split("\n"):
        if line.endswith("\r"):
            line = line[:-1]
        stripped = line.lstrip(" \t")
        sent = _SENT.match(line)

        # ---- a directive is being continued --------------------------
        if direc is not None:
            if sent is None or sent.group(1).lower() != direc[0]:
                items.append(("error", "directive continuation is not "
                              "followed by a line with the same sentinel"))
                close_direc()
                # fall through: treat the line on its own
            else:
                body = line[sent.end():]
                lead = body.lstrip(" \t")
                amp = lead.startswith("&")
                if amp:
                    body = lead[1:]
                last_full_comment = None
                off = len(line) - len(body)
                cont, ccol = _direc_body(direc, body, add_comment)
                info.append({"kind": direc[0], "continues": True,
                             "lead_amp": amp, "sent_end": sent.end(),
                             "ccol": None if ccol is None else off + ccol})
                if not cont:
                    close_direc()
                continue

        # ---- blank and comment lines ----------------------------------
        if not stripped:
            last_full_comment = None
            info.append({"kind": "blank", "ccol": None})
            continue
        if sent is not None:
            # (inside a continued statement this is a comment line for
            # Fortran; it is reported as the directive it is)
            last_full_comment = None
            direc = [sent.group(1).lower(), ""]
            cont, ccol = _direc_body(direc, line[sent.end():], add_comment)
            info.append({"kind": direc[0],
                         "ccol": None if ccol is None else sent.end() + ccol})
            if not cont:
                close_direc()
            continue
        if stripped[0] == "!":
            add_comment(stripped, True)
            info.append({"kind": "comment", "ccol": None})
            continue

        # ---- statement text --------------------------------------------
        last_full_comment = None
        info.append({"kind": "stmt", "ccol": None})
        if stmt is not None:
            if stripped[0] == "&":
                pos = len(line) - len(stripped) + 1
            elif stmt.open:
                items.append(("error", "character context continued "
                              "without a leading '&'"))
                stmt = None
                continue
            else:
                stmt.code(" ")
                pos = 0
        else:
            if stripped[0] == "&":
                items.append(("error", "leading '&' on a line that "
                              "continues nothing"))
                continue
            stmt = _Stmt()
            pos = 0
        cont, comment, err = _scan(stmt, line, pos)
        if comment is not None:
            info[-1]["ccol"] = len(line) - len(comment)
            add_comment(comment, False)
        if err is not None:
            items.append(("error", err))
            stmt = None
            continue
        if not cont:
            items.append(("stmt", stmt.tokens()))
            stmt = None

    if direc is not None:
        items.append(("error", "directive continued past end of text"))
        close_direc()
    if stmt is not None:
        items.append(("error", "statement continued past end of text"))
        items.append(("stmt", stmt.tokens()))
    return [(kind, val.rstrip(" \t")) if kind == "comment" else (kind, val)
            for kind, val in items]


def _direc_body(direc, body, add_comment):
    """Append one physical line's directive text; returns (continued,
    column of a trailing comment in body or None)."""
    cpos = body.find("!")
    comment = None
    if cpos >= 0:
        comment = body[cpos:]
        body = body[:cpos]
    body = body.rstrip(" \t")
    cont = body.endswith("&")
    if cont:
        body = body[:-1]
    direc[1] += " " + body
    if comment is not None:
        add_comment(comment, False)
    return cont, (cpos if cpos >= 0 else None)


def has_error(items):
    return any(kind == "error" for kind, _ in items)


def first_difference(items_a, items_b):
    """Human-readable description of the first differing item, or None."""
    for idx, (ita, itb) in enumerate(zip(items_a, items_b)):
        if ita != itb:
            return f"item {idx}: {ita!r} != {itb!r}"
    if len(items_a) != len(items_b):
        idx = min(len(items_a), len(items_b))
        longer = items_a if len(items_a) > len(items_b) else items_b
        side = "input" if longer is items_a else "output"
        return (f"{side} has extra item {idx}: {longer[idx]!r} "
                f"({len(items_a)} vs {len(items_b)} items)")
    return None
