"""Hypothesis grammar for the 'supported subset' of free-form Fortran.

A generated test unit is a module `m<id>` with one routine under test
(`s<id>`), optional helper routines/functions, and a *driver* (kept outside
PSyclone's hands) that initialises the arguments from an input vector, calls
the routine and prints every observable. All array accesses are in bounds by
construction (interval analysis of index expressions, clamping otherwise).

Main entry points:
    programs(profile)         -> strategy of Prog
    Prog.module_source        -> Fortran text of the module (input of PSyclone)
    Prog.driver(module_text)  -> complete compilable program text
    Prog.inputs               -> list of input vectors {name: value(s)}
"""
from __future__ import annotations

import copy
import re

from hypothesis import strategies as st

INT_ARRAY_VALUE_RANGE = (1, 6)    # values of the read-only index array `ia`


class Var:
    def __init__(self, name, typ, dims=(), role="inout", rng=None):
        self.name = name
        self.typ = typ              # 'int' | 'real' | 'log'
        self.dims = tuple(dims)     # ((lb, ub), ...)
        self.role = role            # 'in' | 'inout' | 'local' | 'loop'
        self.rng = rng              # guaranteed (lo, hi) for ints, or None

    @property
    def rank(self):
        return len(self.dims)

    def size(self):
        tot = 1
        for lb, ub in self.dims:
            tot *= ub - lb + 1
        return tot

    def decl(self, intent=True, assumed=None):
        base = {"int": "integer", "real": "real", "log": "logical"}[self.typ]
        attrs = ""
        if self.dims:
            if assumed:
                shape = assumed
            else:
                shape = ",".join(f"{lb}:{ub}" if lb != 1 else f"{ub}"
                                 for lb, ub in self.dims)
            attrs += f", dimension({shape})"
        if intent and self.role in ("in", "inout"):
            attrs += f", intent({self.role})"
        return f"{base}{attrs} :: {self.name}"


def lit(val):
    """Integer literal, bracketed when negative."""
    return f"({val})" if val < 0 else str(val)


def rlit(num, den=1):
    val = num / den
    txt = f"{abs(val):.4f}".rstrip("0")
    if txt.endswith("."):
        txt += "0"
    return f"(-{txt})" if val < 0 else txt


DEFAULT_PROFILE = {
    "nstmts": (2, 7),          # top-level statements of the routine under test
    "max_depth": 3,
    "budget": 22,              # total statements
    "helpers": (0, 2),
    "kinds": {                 # statement kind -> weight
        "assign_scalar": 6, "assign_elem": 8, "assign_section": 5,
        "do": 8, "dowhile": 1, "if": 4, "if1": 2, "select": 3,
        "where": 3, "call": 3, "exitcycle": 2, "print": 0, "return": 0,
        "matmul": 0, "dep_pair": 0,
    },
    "arrays": None,            # None = draw a subset; or list of names
    "functions": True,
    "ninputs": 3,
    "array_intrinsics": True,
    "neg_bounds": False,       # negative lower bounds (UnsupportedFortranType)
    "twin_loops": 0,           # percent: a DO is followed by a twin DO
    "perfect_nest": 0,         # percent: a DO body is exactly one inner DO
    "same_var_twin": 50,       # percent: the twin uses the same loop variable
    "rich_intrinsics": False,  # SIGN, 3-argument MIN/MAX, mask=, dim=, MATMUL
    "dep_index": 0,            # percent: subscripts from dependence templates
    "extra_int_scalars": (),   # additional integer inout scalars (names)
    "full_loops": 0,           # percent: DO bounds = full extent of an array
    "triangular": 0,           # weight: a loop bound is an outer loop variable
    "index_alias_calls": 0,    # percent: call passes k and a(..k..) together
    "ensure": None,            # intrinsic name that must occur (s_ensure)
    "scalar_loopvar": 0,       # percent: a DO uses the visible local `it`
    "carried_loopvar": 0,      # percent of twins: first loop READS `it`, the
                               # twin re-uses `it` as index of an inner loop
    "exit_with_print": 0,      # percent: EXIT/CYCLE preceded by a PRINT
    "array_only_loops": 0,     # percent: loop body = array-element writes
}


def make_profile(**over):
    prof = copy.deepcopy(DEFAULT_PROFILE)
    kinds = over.pop("kinds", None)
    prof.update(over)
    if kinds:
        prof["kinds"].update(kinds)
    return prof


ARRAY_POOL = [
    Var("a", "real", ((1, 6),)),
    Var("a2", "real", ((1, 6),)),
    Var("b", "real", ((0, 7),)),
    Var("c", "real", ((1, 6), (1, 5))),
    Var("c2", "real", ((1, 6), (1, 5))),
    Var("d", "real", ((0, 5), (2, 4))),
    Var("dn", "real", ((-1, 4), (1, 3))),    # only with profile neg_bounds
    Var("e3", "real", ((1, 3), (1, 3), (1, 2))),
    Var("ib", "int", ((1, 6),)),
    Var("lm", "log", ((1, 6),)),
]


class NoFit(Exception):
    """The requested construct cannot be built in this environment."""


class Helper:
    def __init__(self, name, formals, is_function, restype, lines):
        self.name = name
        self.formals = formals      # list of Var (role in/inout)
        self.is_function = is_function
        self.restype = restype
        self.lines = lines


class Prog:
    def __init__(self):
        self.uid = "0"
        self.args = []              # list of Var: dummy arguments, in order
        self.locals = []            # list of Var
        self.body = []              # list of lines
        self.helpers = []           # list of Helper
        self.features = set()
        self.inputs = []            # list of dict name -> value / list
        self.nstmts = 0
        self.module_vars = []
        # raw extras (vlib/gen_decls.py): module specification lines, extra
        # local declarations of the routine under test, text of modules
        # that must precede this one, USE lines of the routine's module
        self.spec_lines = []
        self.use_lines = []
        self.local_decl_lines = []
        self.pre_modules = []

    # ---- names --------------------------------------------------------
    @property
    def modname(self):
        return f"m{self.uid}"

    @property
    def subname(self):
        return f"s{self.uid}"

    def with_uid(self, uid):
        new = copy.copy(self)
        new.uid = str(uid)
        return new

    # ---- rendering ----------------------------------------------------
    def routine_lines(self):
        out = [f"subroutine {self.subname}("
               + ", ".join(v.name for v in self.args) + ")"]
        for var in self.args:
            out.append("  " + var.decl())
        for var in self.locals:
            out.append("  " + var.decl(intent=False))
        out.extend("  " + ln for ln in self.local_decl_lines)
        out.extend("  " + ln for ln in self.body)
        out.append(f"end subroutine {self.subname}")
        return out

    def helper_lines(self, hlp):
        args = ", ".join(v.name for v in hlp.formals)
        nm = f"{hlp.name}{self.uid}"
        out = []
        if hlp.is_function:
            out.append(f"function {nm}({args}) result(res)")
        else:
            out.append(f"subroutine {nm}({args})")
        out.extend("  " + ln for ln in getattr(hlp, "use_lines", []))
        for var in hlp.formals:
            assumed = None
            if var.dims and getattr(var, "assumed", False):
                assumed = ",".join(":" for _ in var.dims)
            out.append("  " + var.decl(assumed=assumed))
        if hlp.is_function:
            base = {"int": "integer", "real": "real"}[hlp.restype]
            out.append(f"  {base} :: res")
        for var in getattr(hlp, "locals", []):
            out.append("  " + var.decl(intent=False))
        out.extend("  " + ln for ln in getattr(hlp, "decl_lines", []))
        out.extend("  " + ln for ln in hlp.lines)
        out.append(("end function " if hlp.is_function else "end subroutine ")
                   + nm)
        return out

    @property
    def module_source(self):
        out = list(self.pre_modules)
        out.append(f"module {self.modname}")
        out.extend("  " + ln for ln in self.use_lines)
        out.append("  implicit none")
        for var in self.module_vars:
            out.append("  " + var.decl(intent=False))
        out.extend("  " + ln for ln in self.spec_lines)
        out.append("contains")
        for ln in self.routine_lines():
            out.append("  " + ln)
        for hlp in self.helpers:
            for ln in self.helper_lines(hlp):
                out.append("  " + ln)
        out.append(f"end module {self.modname}")
        src = "\n".join(out) + "\n"
        return src.replace("@U@", self.uid)

    def observables(self):
        return [v for v in self.args if v.role == "inout"]

    def driver_sub(self):
        """A driver subroutine `drv<uid>()` that runs all input vectors."""
        out = [f"subroutine drv{self.uid}()",
               f"  use {self.modname}",
               "  implicit none"]
        for var in self.args:
            out.append("  " + var.decl(intent=False))
        out.append("  integer :: icase_")
        out.append(f"  do icase_ = 1, {len(self.inputs)}")
        out.append("    select case (icase_)")
        for num, inp in enumerate(self.inputs, 1):
            out.append(f"    case ({num})")
            for var in self.args:
                val = inp[var.name]
                out.extend("      " + ln for ln in init_lines(var, val))
        out.append("    end select")
        out.append(f"    call {self.subname}("
                   + ", ".join(v.name for v in self.args) + ")")
        out.append("    write(*,'(a,i0)') 'CASE ', icase_")
        for var in self.observables():
            out.append("    " + print_line(var))
        out.append("  end do")
        out.append(f"end subroutine drv{self.uid}")
        return "\n".join(out) + "\n"


def fval(var, val):
    if var.typ == "int":
        return lit(int(val))
    if var.typ == "log":
        return ".true." if val else ".false."
    num, den = val
    return rlit(num, den)


def init_lines(var, val):
    if not var.dims:
        return [f"{var.name} = {fval(var, val)}"]
    items = [fval(var, v) for v in val]
    shape = ",".join(str(ub - lb + 1) for lb, ub in var.dims)
    lines = []
    # split long constructors over continuation lines
    chunks = [", ".join(items[i:i + 8]) for i in range(0, len(items), 8)]
    body = ", &\n        ".join(chunks)
    if var.rank == 1:
        lines.append(f"{var.name} = (/ {body} /)")
    else:
        lines.append(f"{var.name} = reshape((/ {body} /), (/ {shape} /))")
    return lines


def print_line(var):
    if var.typ == "int":
        fmt = "(a,*(1x,i0))"
    elif var.typ == "log":
        fmt = "(a,*(1x,l1))"
    else:
        fmt = "(a,*(1x,es16.8))"
    return f"write(*,'{fmt}') '{var.name}', {var.name}"


def main_program(uids):
    out = ["program main_", "  implicit none",
           "  character(len=32) :: arg_", "  integer :: id_",
           "  call get_command_argument(1, arg_)",
           "  read(arg_, *) id_", "  select case (id_)"]
    for num, uid in enumerate(uids):
        out.append(f"  case ({num})")
        out.append(f"    call drv{uid}()")
    out.append("  end select")
    out.append("end program main_")
    return "\n".join(out) + "\n"


# ----------------------------------------------------------------------
class Gen:
    """Stateful generator bound to one Hypothesis `draw`."""

    def __init__(self, draw, profile):
        self.draw = draw
        self.prof = profile
        self.vars = {}
        self.loop_stack = []        # active loop variable Vars
        self.free_loopvars = []
        self.budget = profile["budget"]
        self.features = set()
        self.helpers = []
        self.in_helper = False
        self.while_counter = 0
        self.extra_locals = []
        self.depth = 0
        # loop variables are only visible (readable) inside their loop
        self.hidden_loopvars = {}
        self.loop_kinds = []

    # ---- primitive draws ---------------------------------------------
    def int(self, lo, hi):
        return self.draw(st.integers(lo, hi))

    def pick(self, seq):
        seq = list(seq)
        if not seq:
            raise NoFit()
        return seq[self.int(0, len(seq) - 1)]

    def flip(self, num=1, den=2):
        return self.int(1, den) <= num

    def weighted(self, opts):
        opts = [(w, o) for w, o in opts if w > 0]
        tot = sum(w for w, _ in opts)
        val = self.int(0, tot - 1)
        for wgt, opt in opts:
            if val < wgt:
                return opt
            val -= wgt
        return opts[-1][1]

    # ---- variable queries ---------------------------------------------
    def scalars(self, typ, writable=False):
        out = []
        for var in self.vars.values():
            if var.typ != typ or var.dims:
                continue
            if writable and (var.role in ("in", "loop") or
                             getattr(var, "reserved", False)):
                continue
            out.append(var)
        return out

    def arrays(self, typ=None, writable=False, rank=None):
        out = []
        for var in self.vars.values():
            if not var.dims:
                continue
            if typ and var.typ != typ:
                continue
            if writable and var.role == "in":
                continue
            if rank and var.rank != rank:
                continue
            out.append(var)
        return out

    # ---- integer expressions with intervals ---------------------------
    def int_atom(self):
        opts = [(4, "lit")]
        ints = self.scalars("int")
        if ints:
            opts.append((6, "var"))
        if self.arrays("int"):
            opts.append((2, "elem"))
        kind = self.weighted(opts)
        if kind == "lit":
            val = self.int(-3, 6)
            return lit(val), val, val
        if kind == "var":
            var = self.pick(ints)
            if var.rng:
                return var.name, var.rng[0], var.rng[1]
            return var.name, None, None
        arr = self.pick(self.arrays("int"))
        txt = self.elem(arr)
        rng = getattr(arr, "valrng", None)
        if rng:
            return txt, rng[0], rng[1]
        return txt, None, None

    def int_expr(self, depth=2):
        if depth <= 0 or self.flip(1, 3):
            return self.int_atom()
        kind = self.weighted([(5, "+"), (4, "-"), (3, "*"), (2, "/"),
                              (2, "mod"), (1, "min"), (1, "max"),
                              (1, "abs"), (1, "neg"),
                              (1 if self.prof["functions"] and
                               self.int_functions() else 0, "fn")])
        lhs, llo, lhi = self.int_expr(depth - 1)
        known = llo is not None
        if kind in "+-":
            rhs, rlo, rhi = self.int_expr(depth - 1)
            if self.flip(1, 6):
                rhs, rlo, rhi = lhs, llo, lhi      # identical operands
            if known and rlo is not None:
                if kind == "+":
                    return f"({lhs} + {rhs})", llo + rlo, lhi + rhi
                return f"({lhs} - {rhs})", llo - rhi, lhi - rlo
            return f"({lhs} {kind} {rhs})", None, None
        if kind == "*":
            cst = self.int(-2, 3)
            if known:
                ends = [llo * cst, lhi * cst]
                return f"({lhs} * {lit(cst)})", min(ends), max(ends)
            return f"({lhs} * {lit(cst)})", None, None
        if kind == "/":
            cst = self.pick([2, 3, -2])
            if known:
                ends = [int(llo / cst), int(lhi / cst)]
                return f"({lhs} / {lit(cst)})", min(ends), max(ends)
            return f"({lhs} / {lit(cst)})", None, None
        if kind == "mod":
            cst = self.int(2, 4)
            lo = 0 if (known and llo >= 0) else -(cst - 1)
            return f"mod({lhs}, {cst})", lo, cst - 1
        if kind in ("min", "max"):
            rhs, rlo, rhi = self.int_expr(depth - 1)
            if known and rlo is not None:
                fun = min if kind == "min" else max
                return (f"{kind}({lhs}, {rhs})", fun(llo, rlo),
                        fun(lhi, rhi))
            return f"{kind}({lhs}, {rhs})", None, None
        if kind == "abs":
            if known:
                lo = 0 if llo <= 0 <= lhi else min(abs(llo), abs(lhi))
                return f"abs({lhs})", lo, max(abs(llo), abs(lhi))
            return f"abs({lhs})", None, None
        if kind == "fn":
            fun = self.pick(self.int_functions())
            return f"{fun.name}@U@({lhs})", None, None
        if known:
            return f"(-{lhs})", -lhi, -llo
        return f"(-{lhs})", None, None

    def int_functions(self):
        if self.in_helper:
            return []
        return [h for h in self.helpers
                if h.is_function and h.restype == "int"]

    def real_functions(self):
        if self.in_helper:
            return []
        return [h for h in self.helpers
                if h.is_function and h.restype == "real"]

    def dep_index(self, lb, ub):
        """Subscript from the dependence-analysis templates (i/2, MOD,
        2*i, n-i, index arrays, ...), in [lb, ub] by interval reasoning;
        None if no template fits."""
        cands = []
        for var in self.loop_stack:
            if var.rng is None:
                continue
            lo, hi = var.rng
            nam = var.name
            forms = [(nam, lo, hi), (f"{nam} + 1", lo + 1, hi + 1),
                     (f"{nam} - 1", lo - 1, hi - 1),
                     (f"{nam} + 2", lo + 2, hi + 2),
                     (f"{nam} / 2", int(lo / 2), int(hi / 2)),
                     (f"({nam} + 1) / 2", int((lo + 1) / 2),
                      int((hi + 1) / 2)),
                     (f"{nam} / 2 + 1", int(lo / 2) + 1, int(hi / 2) + 1),
                     (f"2 * {nam}", 2 * lo, 2 * hi),
                     (f"2 * {nam} - 1", 2 * lo - 1, 2 * hi - 1),
                     (f"mod({nam}, 2) + 1", 0 if lo < 0 else 1, 2),
                     (f"mod({nam}, 3) + {lit(max(lb, 1))}",
                      max(lb, 1) - (2 if lo < 0 else 0), max(lb, 1) + 2),
                     (f"{lo + hi} - {nam}", lo, hi),
                     (f"{nam} * {nam}", 0 if lo <= 0 <= hi else
                      min(lo * lo, hi * hi), max(lo * lo, hi * hi))]
            # small read-only scalars whose names collide with the helper
            # symbols of the dependence analysis (d_<loop variable>)
            smalls = [v for v in self.vars.values()
                      if v.typ == "int" and not v.dims and v.role == "in"
                      and v.rng == (0, 1) and v.name.startswith("d")]
            for sml in smalls:
                forms += [(f"{nam} + {sml.name}", lo, hi + 1),
                          (f"{nam} + 2 * {sml.name}", lo, hi + 2),
                          (f"{nam} - {sml.name}", lo - 1, hi)]
            if len(smalls) >= 2:
                forms.append((f"{nam} + {smalls[0].name} + {smalls[1].name}",
                              lo, hi + 2))
            if "ia" in self.vars and lo >= 1 and hi <= 6:
                forms.append((f"ia({nam})", 1, 6))
                forms.append((f"ia({nam})", 1, 6))
            cands += [f for f in forms if f[1] >= lb and f[2] <= ub]
        if not cands:
            return None
        return self.pick(cands)[0]

    def index(self, lb, ub):
        """Text of an integer expression guaranteed to lie in [lb, ub]."""
        if self.prof["dep_index"] and self.loop_stack and \
                self.int(1, 100) <= self.prof["dep_index"]:
            txt = self.dep_index(lb, ub)
            if txt:
                return txt
        opts = [(3, "lit"), (4, "expr")]
        fits = []
        for var in self.loop_stack + [v for v in self.scalars("int")
                                      if v.role == "in" and v.rng]:
            if var.rng is None:
                continue
            lo, hi = var.rng
            offs = [o for o in range(-2, 3)
                    if lo + o >= lb and hi + o <= ub]
            if offs:
                fits.append((var, offs))
        if fits:
            opts.append((12, "var"))
        kind = self.weighted(opts)
        if kind == "lit":
            return str(self.int(lb, ub)) if lb >= 0 else lit(self.int(lb, ub))
        if kind == "var":
            # prefer the innermost loop variables
            var, offs = fits[min(self.int(0, len(fits) - 1),
                                 self.int(0, len(fits) - 1))]
            off = self.pick(offs) if self.flip(1, 2) else \
                (0 if 0 in offs else self.pick(offs))
            if off == 0:
                return var.name
            return f"{var.name} {'+' if off > 0 else '-'} {abs(off)}"
        txt, lo, hi = self.int_expr(2)
        if lo is not None and lo >= lb and hi <= ub:
            return txt
        ext = ub - lb + 1
        if self.flip():
            return f"min(max({txt}, {lit(lb)}), {lit(ub)})"
        if lb == 0:
            return f"mod(abs({txt}), {ext})"
        return f"mod(abs({txt}), {ext}) + {lit(lb)}"

    def elem(self, arr):
        return f"{arr.name}(" + ", ".join(self.index(lb, ub)
                                          for lb, ub in arr.dims) + ")"

    # ---- real / logical scalar expressions ----------------------------
    def real_atom(self):
        opts = [(3, "lit")]
        if self.scalars("real"):
            opts.append((4, "var"))
        if self.arrays("real"):
            opts.append((6, "elem"))
        opts.append((1, "int"))
        kind = self.weighted(opts)
        if kind == "lit":
            return self.pick(["0.0", "1.0", "2.0", "0.5", "3.0", "(-1.0)",
                              "(-2.5)", "1.5", "4.0"])
        if kind == "var":
            return self.pick(self.scalars("real")).name
        if kind == "elem":
            return self.elem(self.pick(self.arrays("real")))
        return f"real({self.int_expr(1)[0]})"

    def real_expr(self, depth=2):
        if depth <= 0 or self.flip(1, 3):
            return self.real_atom()
        opts = [(6, "+"), (5, "-"), (3, "*"), (2, "/"), (1, "abs"),
                (1, "max"), (1, "min"), (1, "neg")]
        if self.prof["array_intrinsics"] and self.arrays("real"):
            opts.append((2, "reduce"))
        if self.prof["functions"] and self.real_functions():
            opts.append((1, "fn"))
        if self.prof["rich_intrinsics"]:
            opts += [(2, "sign"), (2, "minmax3"), (2, "abs")]
        kind = self.weighted(opts)
        if kind == "reduce":
            return self.reduction()
        if kind == "sign":
            return (f"sign({self.real_expr(depth - 1)}, "
                    f"{self.pick(['1.0', '(-1.0)', '2.5', '(-0.5)'])})")
        if kind == "minmax3":
            return (f"{self.pick(['min', 'max'])}({self.real_expr(depth - 1)}"
                    f", {self.real_expr(depth - 1)}, {self.real_atom()})")
        lhs = self.real_expr(depth - 1)
        if kind in "+-":
            if self.flip(1, 6):
                # identical operands: PSyIR node equality is structural, so
                # sibling operands that compare equal are a special case
                return f"({lhs} {kind} {lhs})"
            return f"({lhs} {kind} {self.real_expr(depth - 1)})"
        if kind == "*":
            rhs = self.pick(["2.0", "0.5", "(-1.0)", "3.0"]) \
                if self.flip(2, 3) else self.real_atom()
            return f"({lhs} * {rhs})"
        if kind == "/":
            return f"({lhs} / {self.pick(['2.0', '4.0', '(-2.0)'])})"
        if kind == "abs":
            return f"abs({lhs})"
        if kind in ("max", "min"):
            return f"{kind}({lhs}, {self.real_expr(depth - 1)})"
        if kind == "fn":
            fun = self.pick(self.real_functions())
            return f"{fun.name}@U@({lhs})"
        return f"(-{lhs})"

    def reduction(self, kind=None, arr=None):
        """Scalar-valued transformational intrinsic on an array/section."""
        arr = arr or self.pick(self.arrays("real"))
        self.features.add("array_intrinsic")
        kind = kind or self.weighted([(4, "sum"), (2, "maxval"),
                                      (2, "minval"), (1, "product"),
                                      (2, "dot"), (1, "size")])
        if kind == "size":
            dim = self.int(1, arr.rank)
            return f"real(size({arr.name}, {dim}))"
        maxext = max(ub - lb + 1 for lb, ub in arr.dims)
        if kind == "dot":
            ext = self.int(1, min(5, maxext))
            one = self.section(arr, [ext])
            two = self.section_of_extent([ext], "real")
            return f"dot_product({one}, {two})"
        if kind == "product":
            sec = self.section(arr, [self.int(1, min(3, maxext))])
            return f"product({sec})"
        if self.flip():
            sec = arr.name
            shape = [ub - lb + 1 for lb, ub in arr.dims]
        else:
            shape = [self.int(1, ub - lb + 1) for lb, ub in arr.dims]
            sec = self.section(arr, shape)
        if self.prof["rich_intrinsics"] and kind == "sum" and self.flip(1, 3):
            other = self.section_of_extent(shape, "real") or sec
            return (f"sum({sec}, mask=({other} "
                    f"{self.pick(['>', '<=', '/='])} {self.real_atom()}))")
        return f"{kind}({sec})"

    def log_expr(self, depth=2):
        opts = [(6, "cmp_r"), (5, "cmp_i")]
        if self.scalars("log") or self.arrays("log"):
            opts.append((3, "var"))
        if depth > 0:
            opts += [(3, "and"), (3, "or"), (2, "not"), (3, "eqv")]
        kind = self.weighted(opts)
        if kind == "cmp_r":
            opr = self.pick(["<", "<=", ">", ">=", "==", "/="])
            return f"({self.real_expr(1)} {opr} {self.real_expr(1)})"
        if kind == "cmp_i":
            opr = self.pick(["<", "<=", ">", ">=", "==", "/="])
            return f"({self.int_expr(1)[0]} {opr} {self.int_expr(1)[0]})"
        if kind == "var":
            cands = self.scalars("log")
            if cands and (not self.arrays("log") or self.flip()):
                return self.pick(cands).name
            if self.arrays("log"):
                return self.elem(self.pick(self.arrays("log")))
            return ".true."
        if kind == "not":
            return f"(.not. {self.log_expr(depth - 1)})"
        opr = {"and": ".and.", "or": ".or.", "eqv":
               self.pick([".eqv.", ".neqv."])}[kind]
        left = self.log_expr(depth - 1)
        if kind != "eqv" and self.flip(1, 3):
            # the lowest-precedence operators as an operand of .and./.or.
            right = (f"({self.log_expr(0)} {self.pick(['.eqv.', '.neqv.'])} "
                     f"{self.log_expr(0)})")
            if self.flip():
                left, right = right, left
        else:
            right = self.log_expr(depth - 1)
        return f"({left} {opr} {right})"

    # ---- array sections -------------------------------------------------
    def section(self, arr, shape):
        """Section of `arr` with the given extents; dims beyond len(shape)
        (chosen at random positions) get scalar indices."""
        rank = arr.rank
        nrange = len(shape)
        # choose which dims carry ranges (must be large enough)
        positions = self._fit_positions(arr, shape)
        if positions is None:
            raise ValueError("no fit")
        parts = []
        sidx = 0
        for dim, (lb, ub) in enumerate(arr.dims):
            if dim in positions:
                ext = shape[sidx]
                sidx += 1
                parts.append(self.range_text(lb, ub, ext))
            else:
                parts.append(self.index(lb, ub))
        assert sidx == nrange and rank >= nrange
        self.features.add("section")
        return f"{arr.name}(" + ", ".join(parts) + ")"

    def _fit_positions(self, arr, shape):
        """Increasing dim positions where each extent fits, or None."""
        res = []
        dim = 0
        for ext in shape:
            while dim < arr.rank and \
                    arr.dims[dim][1] - arr.dims[dim][0] + 1 < ext:
                dim += 1
            if dim >= arr.rank:
                return None
            res.append(dim)
            dim += 1
        # randomly shift later if possible (keeps order)
        return set(res)

    def range_text(self, lb, ub, ext):
        size = ub - lb + 1
        strides = [1]
        if ext >= 1:
            for cand in (2, 3, -1, -2):
                if (ext - 1) * abs(cand) + 1 <= size:
                    strides.append(cand)
        stride = self.pick(strides) if self.flip(1, 3) else 1
        span = (ext - 1) * abs(stride)
        first = self.int(lb, ub - span)
        if stride > 0:
            start, stop = first, first + span
        else:
            start, stop = first + span, first
        if stride == 1 and ext == size and self.flip(2, 3):
            return self.pick([":", f"{lit(lb)}:", f":{lit(ub)}",
                              f"{lit(lb)}:{lit(ub)}"])
        if stride == 1:
            if start == lb and self.flip(1, 4):
                return f":{lit(stop)}"
            if stop == ub and self.flip(1, 4):
                return f"{lit(start)}:"
            return f"{lit(start)}:{lit(stop)}"
        if stride > 0 and self.flip(1, 3) and stop + 1 <= ub:
            stop += 1 if (stop + 1 - start) % stride else 0
        self.features.add("strided_section")
        return f"{lit(start)}:{lit(stop)}:{lit(stride)}"

    def section_of_extent(self, shape, typ):
        cands = [a for a in self.arrays(typ)
                 if self._fit_positions(a, shape) is not None]
        if not cands:
            return None
        return self.section(self.pick(cands), shape)

    def array_expr(self, shape, typ, depth=2):
        """Array-valued (or broadcast scalar) expression of `shape`."""
        if typ == "log":
            if depth > 0 and self.flip(1, 4):
                opr = self.pick([".and.", ".or."])
                return (f"({self.array_expr(shape, 'log', depth - 1)} {opr} "
                        f"{self.array_expr(shape, 'log', depth - 1)})")
            if self.flip(1, 4):
                sec = self.section_of_extent(shape, "log")
                if sec:
                    return sec
            opr = self.pick(["<", "<=", ">", ">=", "==", "/="])
            lhs = self.section_of_extent(shape, "real")
            if lhs is None:
                lhs = self.real_expr(1)
            return f"({lhs} {opr} {self.array_expr(shape, 'real', depth - 1)})"
        if typ == "int":
            sec = self.section_of_extent(shape, "int")
            if sec and self.flip(2, 3):
                if self.flip():
                    return f"({sec} + {self.int_expr(1)[0]})"
                return sec
            return self.int_expr(1)[0]
        if self.prof["rich_intrinsics"] and len(shape) == 1 and \
                self.flip(1, 4):
            red = self.dim_reduction(shape[0])
            if red:
                return red
        if depth <= 0 or self.flip(1, 3):
            sec = self.section_of_extent(shape, "real")
            if sec and self.flip(3, 4):
                return sec
            return self.real_expr(1)
        kind = self.weighted([(5, "+"), (4, "-"), (3, "*"), (1, "abs"),
                              (1, "max"), (1, "neg"), (1, "/")])
        lhs = self.array_expr(shape, "real", depth - 1)
        if kind in "+-":
            return f"({lhs} {kind} {self.array_expr(shape, 'real', depth - 1)})"
        if kind == "*":
            return f"({lhs} * {self.pick(['2.0', '0.5', '(-1.0)'])})"
        if kind == "/":
            return f"({lhs} / 2.0)"
        if kind == "abs":
            return f"abs({lhs})"
        if kind == "max":
            return f"max({lhs}, {self.array_expr(shape, 'real', depth - 1)})"
        return f"(-{lhs})"

    def dim_reduction(self, ext):
        """Rank-1 array-valued reduction over one dim of a rank-2 array."""
        cands = []
        for arr in self.arrays("real", rank=2):
            for dim in (1, 2):
                oth = arr.dims[2 - dim]
                if oth[1] - oth[0] + 1 >= ext:
                    cands.append((arr, dim))
        if not cands:
            return None
        arr, dim = self.pick(cands)
        oth = arr.dims[2 - dim]
        red = arr.dims[dim - 1]
        nred = self.int(1, red[1] - red[0] + 1)
        parts = [None, None]
        parts[dim - 1] = self.range_text(red[0], red[1], nred)
        parts[2 - dim] = self.range_text(oth[0], oth[1], ext)
        kind = self.pick(["sum", "sum", "maxval", "minval", "product"])
        if kind == "product":
            parts[dim - 1] = self.range_text(red[0], red[1], min(nred, 2))
        self.features.add("dim_reduction")
        return f"{kind}({arr.name}({parts[0]}, {parts[1]}), dim={dim})"

    def s_matmul(self):
        """vector = MATMUL(matrix, vector) or matrix = MATMUL(matrix,
        matrix) on whole arrays or sections."""
        mats = self.arrays("real", rank=2)
        if not mats:
            raise NoFit()
        self.features.add("matmul")
        amat = self.pick(mats)
        nrow = self.int(1, min(4, amat.dims[0][1] - amat.dims[0][0] + 1))
        nmid = self.int(1, min(4, amat.dims[1][1] - amat.dims[1][0] + 1))
        whole = self.flip(1, 4)
        if whole:
            nrow = amat.dims[0][1] - amat.dims[0][0] + 1
            nmid = amat.dims[1][1] - amat.dims[1][0] + 1
            atxt = amat.name if self.flip() else f"{amat.name}(:, :)"
        else:
            atxt = (f"{amat.name}("
                    f"{self.unit_range(amat.dims[0], nrow)}, "
                    f"{self.unit_range(amat.dims[1], nmid)})")
        if self.flip(2, 3):
            vecs = [a for a in self.arrays("real", rank=1)
                    if a.size() >= nmid]
            outs = [a for a in self.arrays("real", rank=1, writable=True)
                    if a.size() >= nrow]
            if not vecs or not outs:
                raise NoFit()
            vec = self.pick(vecs)
            out = self.pick([o for o in outs if o.name != vec.name] or outs)
            if out.name == vec.name:
                raise NoFit()
            vtxt = vec.name if vec.size() == nmid and self.flip() else \
                f"{vec.name}({self.unit_range(vec.dims[0], nmid)})"
            otxt = out.name if out.size() == nrow and self.flip() else \
                f"{out.name}({self.unit_range(out.dims[0], nrow)})"
            return [f"{otxt} = matmul({atxt}, {vtxt})"]
        others = [a for a in mats if a.name != amat.name and
                  a.dims[0][1] - a.dims[0][0] + 1 >= nmid]
        if not others:
            raise NoFit()
        bmat = self.pick(others)
        ncol = self.int(1, min(3, bmat.dims[1][1] - bmat.dims[1][0] + 1))
        btxt = (f"{bmat.name}({self.unit_range(bmat.dims[0], nmid)}, "
                f"{self.unit_range(bmat.dims[1], ncol)})")
        outs = [a for a in self.arrays("real", rank=2, writable=True)
                if a.name not in (amat.name, bmat.name)
                and a.dims[0][1] - a.dims[0][0] + 1 >= nrow
                and a.dims[1][1] - a.dims[1][0] + 1 >= ncol]
        if not outs:
            raise NoFit()
        out = self.pick(outs)
        otxt = (f"{out.name}({self.unit_range(out.dims[0], nrow)}, "
                f"{self.unit_range(out.dims[1], ncol)})")
        return [f"{otxt} = matmul({atxt}, {btxt})"]

    def unit_range(self, dim, ext):
        """Unit-stride range text of extent `ext` within dim (lb, ub)."""
        lb, ub = dim
        start = self.int(lb, ub - ext + 1)
        if ext == ub - lb + 1 and self.flip():
            return ":"
        return f"{lit(start)}:{lit(start + ext - 1)}"

    # ---- statements -----------------------------------------------------
    def stmt(self):
        """Return a list of lines for one statement."""
        self.budget -= 1
        kinds = dict(self.prof["kinds"])
        if self.depth >= self.prof["max_depth"] or self.budget <= 0:
            for k in ("do", "dowhile", "if", "select", "where"):
                kinds[k] = 0
        if not self.loop_kinds:
            kinds["exitcycle"] = 0
        if self.in_helper or not [h for h in self.helpers
                                  if not h.is_function]:
            kinds["call"] = 0
        if self.in_helper:
            kinds["return"] = 0
        if not self.arrays(writable=True):
            kinds["assign_elem"] = kinds["assign_section"] = 0
            kinds["where"] = 0
        if not self.free_loopvars:
            kinds["do"] = 0
        kind = self.weighted([(w, k) for k, w in kinds.items()])
        try:
            return getattr(self, "s_" + kind)()
        except NoFit:
            return self.s_assign_scalar()

    def while_depth(self):
        return getattr(self, "_while_depth", 0)

    def block(self, nmin=1, nmax=3):
        self.depth += 1
        lines = []
        for _ in range(self.int(nmin, nmax)):
            lines.extend("  " + ln for ln in self.stmt())
        self.depth -= 1
        return lines

    def s_assign_scalar(self):
        typ = self.weighted([(5, "real"), (3, "int"), (1, "log")])
        cands = self.scalars(typ, writable=True)
        if not cands:
            cands = self.scalars("real", writable=True)
            typ = "real"
        var = self.pick(cands)
        if typ == "real":
            return [f"{var.name} = {self.real_expr(2)}"]
        if typ == "int":
            return [f"{var.name} = {self.int_expr(2)[0]}"]
        return [f"{var.name} = {self.log_expr(1)}"]

    def s_ensure(self, name):
        """A statement that certainly contains intrinsic `name` (profile
        option `ensure`), in the forms the lowering transformations meet:
        scalar or array-element target, intrinsic alone or inside an
        expression, argument possibly the target's own array."""
        reals = self.arrays("real")
        if not reals:
            raise NoFit()
        arr = self.pick(reals)
        if name in ("sum", "product", "minval", "maxval", "dot"):
            call = self.reduction(kind=name, arr=arr)
        elif name == "abs":
            call = f"abs({self.real_expr(1)})"
        elif name == "sign":
            call = (f"sign({self.real_expr(1)}, "
                    f"{self.pick(['1.0', '(-1.0)', '2.5', '(-0.5)'])})")
        elif name in ("min", "max"):
            args = [self.real_expr(1) for _ in range(self.int(2, 4))]
            call = f"{name}(" + ", ".join(args) + ")"
        elif name == "matmul":
            return self.s_matmul()
        else:
            raise NoFit()
        form = self.int(0, 3)
        if form == 0:
            rhs = call
        elif form == 1:
            rhs = f"({self.real_atom()} + {call})"
        elif form == 2:
            rhs = f"({call} * {self.pick(['2.0', '0.5', '(-1.0)'])})"
        else:
            rhs = f"({call} - {self.real_atom()})"
        warrs = self.arrays("real", writable=True)
        if warrs and self.flip():
            # prefer an element of the array the intrinsic reads
            tgt = arr if arr in warrs and self.flip(2, 3) else \
                self.pick(warrs)
            return [f"{self.elem(tgt)} = {rhs}"]
        scal = self.scalars("real", writable=True)
        return [f"{self.pick(scal).name} = {rhs}"]

    def s_dep_pair(self):
        """arr(idx1) = arr(idx2) <op> expr with both subscripts from the
        dependence templates (same array read and written in one
        statement: the shape dependence analysis has to reason about)."""
        if not self.loop_stack:
            raise NoFit()
        arrs = self.arrays("real", writable=True)
        arr = self.pick(arrs)
        smalls = [v for v in self.vars.values()
                  if v.typ == "int" and not v.dims and v.role == "in"
                  and v.rng == (0, 1) and v.name.startswith("d")]
        var = self.loop_stack[-1]
        if smalls and arr.rank == 1 and var.rng and self.flip(1, 3):
            # directed: the same small scalar with different coefficients
            # on the two sides (v + s vs v + 2*s, v - s vs v + s, ...)
            sml = self.pick(smalls)
            match = [v for v in smalls if v.name == "d_" + var.name]
            if match and self.flip(2, 3):
                sml = match[0]      # named like the loop variable's helper
            lo, hi = var.rng
            lb, ub = arr.dims[0]
            forms = [(f"{var.name} + {sml.name}", lo, hi + 1),
                     (f"{var.name} + 2 * {sml.name}", lo, hi + 2),
                     (f"{var.name} - {sml.name}", lo - 1, hi),
                     (f"{var.name}", lo, hi)]
            forms = [f for f in forms if f[1] >= lb and f[2] <= ub]
            if len(forms) >= 2:
                one = self.pick(forms)
                two = self.pick([f for f in forms if f is not one])
                self.features.add("dep_pair_small_scalar")
                return [f"{arr.name}({one[0]}) = ({arr.name}({two[0]}) + "
                        f"{self.real_atom()})"]
        saved = self.prof["dep_index"]
        self.prof["dep_index"] = 100
        try:
            lhs = self.elem(arr)
            rhs = self.elem(arr)
        finally:
            self.prof["dep_index"] = saved
        self.features.add("dep_pair")
        return [f"{lhs} = ({rhs} + {self.real_atom()})"]

    def s_assign_elem(self):
        arr = self.pick(self.arrays(writable=True))
        lhs = self.elem(arr)
        if arr.typ == "real":
            return [f"{lhs} = {self.real_expr(2)}"]
        if arr.typ == "int":
            return [f"{lhs} = {self.int_expr(2)[0]}"]
        return [f"{lhs} = {self.log_expr(1)}"]

    def pick_shape(self, arr):
        rank = self.int(1, arr.rank)
        # choose extents for the last `rank` fitting dims
        dims = sorted(self.draw(st.permutations(range(arr.rank)))[:rank])
        return [self.int(1, arr.dims[d][1] - arr.dims[d][0] + 1)
                for d in dims], dims

    def s_assign_section(self):
        arr = self.pick(self.arrays(writable=True))
        self.features.add("array_assign")
        if self.flip(1, 5):
            # whole-array assignment without section notation
            shape = [ub - lb + 1 for lb, ub in arr.dims]
            return [f"{arr.name} = {self.array_expr(shape, arr.typ, 1)}"]
        shape, dims = self.pick_shape(arr)
        parts = []
        sidx = 0
        for dim, (lb, ub) in enumerate(arr.dims):
            if dim in dims:
                parts.append(self.range_text(lb, ub, shape[sidx]))
                sidx += 1
            else:
                parts.append(self.index(lb, ub))
        lhs = f"{arr.name}(" + ", ".join(parts) + ")"
        return [f"{lhs} = {self.array_expr(shape, arr.typ, 2)}"]

    def loop_header(self, var):
        """Draw loop bounds; returns (header text, (lo, hi) or None)."""
        if self.prof.get("full_loops") and \
                self.int(1, 100) <= self.prof["full_loops"]:
            # literal bounds equal to the full extent of a pool array
            # dimension (so that `a(i) = ...` overwrites the whole array)
            lo, hi = self.pick([(1, 6), (1, 6), (1, 6), (0, 7), (1, 5),
                                (1, 3), (2, 4), (0, 5)])
            return f"do {var.name} = {lo}, {hi}", (lo, hi)
        step = self.weighted([(10, 1), (2, 2), (1, 3), (3, -1), (1, -2)])
        ins = [v for v in self.scalars("int") if v.role == "in" and v.rng]

        outers = [v for v in self.loop_stack if v.rng and
                  -2 <= v.rng[0] and v.rng[1] <= 8]

        def bound(lo, hi):
            tri = self.prof.get("triangular", 0) if outers else 0
            kind = self.weighted([(6, "lit"), (5 if ins else 0, "in"),
                                  (1, "expr"), (tri, "outer")])
            if kind == "outer":
                # triangular nest: bound depends on an enclosing loop variable
                var_out = self.pick(outers)
                off = self.pick([0, 0, 1, -1])
                txt = var_out.name if off == 0 else \
                    f"{var_out.name} {'+' if off > 0 else '-'} {abs(off)}"
                self.features.add("triangular")
                return txt, var_out.rng[0] + off, var_out.rng[1] + off
            if kind == "lit":
                val = self.int(lo, hi)
                return lit(val), val, val
            if kind == "in":
                var_in = self.pick(ins)
                off = self.pick([0, 0, 0, 1, -1])
                txt = var_in.name if off == 0 else \
                    f"{var_in.name} {'+' if off > 0 else '-'} {abs(off)}"
                return txt, var_in.rng[0] + off, var_in.rng[1] + off
            # any integer expression that does not involve an array
            # being written in the loop cannot be guaranteed: clamp it
            txt, elo, ehi = self.int_expr(1)
            if elo is None or elo < -2 or ehi > 8:
                return f"min(max({txt}, {lit(lo)}), {hi})", lo, hi
            return txt, elo, ehi
        lo_t, lo_lo, _ = bound(0, 3)
        hi_t, _, hi_hi = bound(1, 6)
        if self.flip(1, 12):
            # deliberately empty / single-trip literal loops
            lo_t, lo_lo = self.pick([("3", 3), ("5", 5)])
            hi_t, hi_hi = self.pick([("2", 2), ("5", 5), ("3", 3)])
        rng = (min(lo_lo, hi_hi), max(lo_lo, hi_hi))
        if step > 0:
            txt = f"do {var.name} = {lo_t}, {hi_t}"
        else:
            txt = f"do {var.name} = {hi_t}, {lo_t}"
        if step != 1:
            txt += f", {lit(step)}"
            self.features.add("nonunit_step" if step > 0 else "neg_step")
        return txt, rng

    def s_do(self, header=None):
        # occasionally an ordinary (visible, readable elsewhere) integer
        # local is re-used as the loop index, as hand-written code does
        scalar_var = None
        if self.int(1, 100) <= self.prof.get("scalar_loopvar", 0):
            cand = self.vars.get("it")
            if cand is not None and cand.role == "local" and \
                    cand not in self.loop_stack and not self.in_helper:
                scalar_var = cand
        if scalar_var is not None:
            return self._s_do_scalar(scalar_var)
        name = self.free_loopvars.pop(0)
        var = self.hidden_loopvars[name]
        if header is None:
            # the loop variable is not visible in its own header
            head, rng = self.loop_header(var)
            header = (head.split("=", 1)[1], rng)
        else:
            head = f"do {var.name} ={header[0]}"
            rng = header[1]
        self.vars[name] = var
        var.rng = rng
        var.role = "loop"
        self.loop_stack.append(var)
        self.loop_kinds.append("do")
        carried_plan = False
        if self.prof.get("carried_loopvar", 0) and \
                not getattr(self, "_in_twin", False) and \
                self.int(1, 100) <= self.prof["carried_loopvar"]:
            cand = self.vars.get("it")
            carried_plan = cand is not None and cand.role == "local" and \
                cand not in self.loop_stack and not self.in_helper
        if getattr(self, "_force_inner_scalar", False) or carried_plan:
            # directed pair: the first loop only READS the visible scalar
            # `it`, its twin re-uses `it` as index of an inner loop. Bodies
            # assign array elements only (so that the loops are accepted).
            saved_kinds = self.prof["kinds"]
            self.prof["kinds"] = {k: 0 for k in saved_kinds}
            self.prof["kinds"].update({"assign_elem": 3})
            try:
                if carried_plan:
                    body = self.block(1, 2)
                else:
                    self._force_inner_scalar = False
                    self.depth += 1
                    body = ["  " + ln
                            for ln in self._s_do_scalar(self.vars["it"])]
                    self.depth -= 1
            finally:
                self.prof["kinds"] = saved_kinds
        elif self.free_loopvars and self.depth < self.prof["max_depth"] - 1 \
                and self.int(1, 100) <= self.prof["perfect_nest"]:
            self.depth += 1
            self.budget -= 1
            body = ["  " + ln for ln in self.s_do()]
            self.depth -= 1
            self.features.add("perfect_nest")
        elif self.int(1, 100) <= self.prof.get("array_only_loops", 0):
            # a loop whose body only assigns array elements (no scalar
            # writes): the kind of loop dependence analysis can accept
            saved_kinds = self.prof["kinds"]
            self.prof["kinds"] = {k: 0 for k in saved_kinds}
            self.prof["kinds"].update({"assign_elem": 3, "dep_pair": 6})
            try:
                body = self.block(1, 2)
            finally:
                self.prof["kinds"] = saved_kinds
            self.features.add("array_only_loop")
        else:
            body = self.block(1, 3)
        want_twin = self.int(1, 100) <= self.prof["twin_loops"] and \
            not getattr(self, "_in_twin", False)
        carried = False
        if carried_plan:
            target = [arr for arr in self.arrays("real", writable=True,
                                                 rank=1)
                      if rng[0] >= arr.dims[0][0] and
                      rng[1] <= arr.dims[0][1]]
            if target:
                carried = want_twin = True
                body.append(f"  {self.pick(target).name}({var.name}) = "
                            f"real(it)")
                self.features.add("carried_loopvar")
        self.loop_kinds.pop()
        self.loop_stack.pop()
        var.rng = None
        var.role = "local"
        var.reserved = True
        self.vars.pop(name, None)
        self.free_loopvars.insert(0, name)
        self.features.add("loop")
        if len(self.loop_stack) >= 1:
            self.features.add("nested_loop")
        lines = [head] + body + ["end do"]
        if want_twin:
            self._in_twin = True
            self._force_inner_scalar = carried
            self.features.add("twin_loops")
            if self.int(1, 100) > self.prof["same_var_twin"] and \
                    len(self.free_loopvars) > 1:
                # use a different loop variable for the twin
                self.free_loopvars.append(self.free_loopvars.pop(0))
                lines += self.s_do(header)
                self.free_loopvars.insert(0, self.free_loopvars.pop())
            else:
                lines += self.s_do(header)
            self._in_twin = False
        return lines

    def _s_do_scalar(self, var):
        """DO loop whose index is the visible local `var` (no twin / perfect
        nest handling; the variable stays readable after the loop)."""
        saved = self.vars.pop(var.name)
        head, rng = self.loop_header(var)     # not visible in its header
        self.vars[var.name] = saved
        var.rng = rng
        var.role = "loop"
        self.loop_stack.append(var)
        self.loop_kinds.append("do")
        body = self.block(1, 3)
        self.loop_kinds.pop()
        self.loop_stack.pop()
        var.rng = None
        var.role = "local"
        self.features.add("loop")
        self.features.add("scalar_loopvar")
        return [head] + body + ["end do"]

    def s_dowhile(self):
        self.while_counter += 1
        name = f"iw{self.while_counter}"
        var = Var(name, "int", role="local")
        var.reserved = True
        self.vars[name] = var
        self.extra_locals.append(var)
        limit = self.int(0, 3)
        flag = None
        if self.flip(1, 3):
            # flag-controlled form: the tested variable is assigned in the
            # body without being read there
            flag = Var(f"lw{self.while_counter}", "log", role="local")
            flag.reserved = True
            self.vars[flag.name] = flag
            self.extra_locals.append(flag)
            self.features.add("dowhile_flag")
        self._while_depth = self.while_depth() + 1
        self.loop_kinds.append("while")
        body = self.block(1, 2)
        self.loop_kinds.pop()
        self._while_depth -= 1
        self.features.add("dowhile")
        if flag is not None:
            return ([f"{name} = 0", f"{flag.name} = ({name} < {limit})",
                     f"do while ({flag.name})"] + body +
                    [f"  {name} = {name} + 1",
                     f"  {flag.name} = ({name} < {limit})", "end do"])
        return ([f"{name} = 0", f"do while ({name} < {limit})"] + body +
                [f"  {name} = {name} + 1", "end do"])

    def s_if(self):
        lines = [f"if {self.cond()} then"] + self.block(1, 2)
        for _ in range(self.weighted([(5, 0), (2, 1), (1, 2)])):
            lines += [f"else if {self.cond()} then"] + self.block(1, 2)
        if self.flip():
            lines += ["else"] + self.block(1, 2)
        lines.append("end if")
        self.features.add("if")
        return lines

    def cond(self):
        txt = self.log_expr(1)
        return txt if txt.startswith("(") else f"({txt})"

    def s_if1(self):
        kinds = dict(self.prof["kinds"])
        self.budget -= 1
        kind = self.weighted([(3, "assign_scalar"),
                              (3 if self.arrays(writable=True) else 0,
                               "assign_elem")])
        inner = getattr(self, "s_" + kind)()
        return [f"if {self.cond()} {inner[0]}"]

    def s_exitcycle(self):
        # CYCLE in a DO WHILE would skip the counter increment
        word = self.pick(["exit", "cycle"]) \
            if self.loop_kinds[-1] == "do" else "exit"
        self.features.add("codeblock")
        self.features.add(word)
        if self.int(1, 100) <= self.prof.get("exit_with_print", 0):
            # a multi-statement CodeBlock: another unsupported statement
            # directly before the EXIT/CYCLE
            self.features.add("print_then_" + word)
            return [f"if {self.cond()} then",
                    f"  print *, 'v', {self.int_expr(1)[0]}",
                    f"  {word}", "end if"]
        return [f"if {self.cond()} {word}"]

    def s_print(self):
        self.features.add("codeblock")
        return [f"print *, 'v', {self.int_expr(1)[0]}"]

    def s_return(self):
        self.features.add("return")
        return [f"if {self.cond()} return"]

    def s_select(self):
        self.features.add("select")
        if self.flip(1, 6) and (self.scalars("log")):
            sel = self.log_expr(1)
            lines = [f"select case ({sel})"]
            order = self.pick([[".true.", ".false."], [".false."],
                               [".true."], [".false.", ".true."]])
            for val in order:
                lines += [f"case ({val})"] + self.block(1, 2)
            if len(order) < 2 and self.flip():
                lines += ["case default"] + self.block(1, 2)
            lines.append("end select")
            return lines
        sel = self.int_expr(1)[0]
        # disjoint case selectors from sorted break points
        pts = sorted(self.draw(st.lists(st.integers(-3, 7), min_size=2,
                                        max_size=8, unique=True)))
        groups = []
        idx = 0
        first = True
        while idx < len(pts):
            form = self.weighted([(5, "val"), (3, "range"),
                                  (1 if first else 0, "open_lo"),
                                  (1, "open_hi")])
            if form == "val" or idx + 1 >= len(pts) and form == "range":
                groups.append(lit(pts[idx]).strip("()"))
                idx += 1
            elif form == "range":
                groups.append(f"{pts[idx]}:{pts[idx + 1]}")
                idx += 2
            elif form == "open_lo":
                groups.append(f":{pts[idx]}")
                idx += 1
            else:
                groups.append(f"{pts[idx]}:")
                idx = len(pts)
            first = False
        # distribute selector groups over case blocks (lists)
        ncase = self.int(1, min(3, len(groups)))
        groups = list(self.draw(st.permutations(groups)))
        blocks = [[] for _ in range(ncase)]
        for num, grp in enumerate(groups):
            blocks[num % ncase].append(grp)
        default_pos = self.int(0, ncase + 1)   # ncase+1 = no default
        lines = [f"select case ({sel})"]
        for num, blk in enumerate(blocks):
            if num == default_pos:
                lines += ["case default"] + self.block(1, 2)
            lines += ["case (" + ", ".join(blk) + ")"] + self.block(1, 2)
        if default_pos == ncase:
            lines += ["case default"] + self.block(1, 2)
        lines.append("end select")
        return lines

    def s_where(self):
        self.features.add("where")
        arr = self.pick(self.arrays("real", writable=True))
        full = self.flip(2, 3)
        if full:
            shape = [ub - lb + 1 for lb, ub in arr.dims]
        else:
            shape, _ = self.pick_shape(arr)

        def target():
            cands = [a for a in self.arrays("real", writable=True)
                     if self._fit_positions(a, shape) is not None]
            tgt = self.pick(cands)
            if full and [ub - lb + 1 for lb, ub in tgt.dims] == shape:
                if self.flip(1, 4):
                    return tgt.name
                return f"{tgt.name}(" + ", ".join(":" for _ in tgt.dims) + ")"
            return self.section(tgt, shape)

        def assign():
            return f"{target()} = {self.array_expr(shape, 'real', 1)}"
        mask = self.array_expr(shape, "log", 1)
        if self.flip(1, 3):
            return [f"where ({mask}) {assign()}"]
        lines = [f"where ({mask})"]
        lines += ["  " + assign() for _ in range(self.int(1, 2))]
        if self.flip(1, 3):
            self.features.add("elsewhere_mask")
            lines.append(f"elsewhere ({self.array_expr(shape, 'log', 1)})")
            lines += ["  " + assign() for _ in range(self.int(1, 2))]
        if self.flip():
            self.features.add("elsewhere")
            lines.append("elsewhere")
            lines += ["  " + assign() for _ in range(self.int(1, 2))]
        lines.append("end where")
        return lines

    def s_call(self):
        subs = [h for h in self.helpers if not h.is_function]
        hlp = self.pick(subs)
        self.features.add("call")
        used = set()
        actuals = []
        for frm in hlp.formals:
            actuals.append(self.actual(frm, used))
        # "index aliasing" class: an integer variable is passed to a written
        # integer dummy while another actual is an array element whose
        # subscript reads that same variable (legal Fortran: the element is
        # selected at the call)
        ints = [i for i, f in enumerate(hlp.formals)
                if f.typ == "int" and not f.dims and f.role == "inout"]
        reals = [i for i, f in enumerate(hlp.formals)
                 if f.typ == "real" and not f.dims]
        arrs = [a for a in self.arrays("real", writable=True, rank=1)]
        ivars = [v for v in self.scalars("int", writable=True)]
        if ints and reals and arrs and ivars and \
                self.int(1, 100) <= self.prof.get("index_alias_calls", 0):
            ivar = self.pick(ivars)
            arr = self.pick(arrs)
            lb, ub = arr.dims[0]
            used = {ivar.name, arr.name}
            actuals = [None] * len(hlp.formals)
            actuals[ints[0]] = ivar.name
            actuals[reals[0]] = \
                f"{arr.name}(min(max({ivar.name}, {lit(lb)}), {lit(ub)}))"
            for pos, frm in enumerate(hlp.formals):
                if actuals[pos] is None:
                    actuals[pos] = self.actual(frm, used)
            self.features.add("index_alias_call")
        if self.flip(1, 4) and len(actuals) >= 1:
            # keyword arguments for a suffix of the list
            cut = self.int(0, len(actuals) - 1)
            self.features.add("kwarg")
            pairs = [f"{f.name}={a}" for f, a in
                     zip(hlp.formals[cut:], actuals[cut:])]
            if self.flip():
                pairs = list(reversed(pairs))
            actuals = actuals[:cut] + pairs
        return [f"call {hlp.name}@U@(" + ", ".join(actuals) + ")"]

    def actual(self, frm, used):
        """Actual argument text for formal `frm`; `used` collects the root
        variables already passed (no aliasing with written dummies)."""
        if frm.dims:
            ext = frm.dims[0][1] - frm.dims[0][0] + 1
            cands = [a for a in self.arrays(frm.typ,
                                            writable=frm.role != "in")
                     if a.name not in used
                     and self._fit_positions(a, [ext]) is not None]
            if not cands:
                raise NoFit()
            arr = self.pick(cands)
            used.add(arr.name)
            if arr.rank == 1 and arr.size() == ext and self.flip():
                return arr.name
            self.features.add("section_actual")
            return self.section(arr, [ext])
        if frm.role == "in":
            if frm.typ == "int":
                return self.int_expr(1)[0]
            # expression actual: may read anything not written through
            # another dummy -> restrict to literals and unused scalars
            cands = [v for v in self.scalars("real") if v.name not in used]
            if cands and self.flip():
                return self.pick(cands).name
            return self.pick(["1.0", "2.0", "0.5", "(-3.0)"])
        # scalar inout: variable or array element
        opts = [v for v in self.scalars(frm.typ, writable=True)
                if v.name not in used]
        arrs = [a for a in self.arrays(frm.typ, writable=True)
                if a.name not in used]
        if arrs and (not opts or self.flip()):
            arr = self.pick(arrs)
            used.add(arr.name)
            self.features.add("element_actual")
            return self.elem(arr)
        if not opts:
            raise NoFit()
        var = self.pick(opts)
        used.add(var.name)
        return var.name


def gen_helper(gen_outer, num, profile):
    """A helper subroutine/function with its own environment."""
    draw = gen_outer.draw
    gen = Gen(draw, make_profile(
        kinds={"call": 0, "where": 1, "select": 1, "dowhile": 0,
               "exitcycle": 0, "print": 0, "return": 0},
        budget=5, max_depth=2, functions=False))
    gen.in_helper = True
    is_fn = profile["functions"] and gen.flip(1, 3)
    formals = []
    if is_fn:
        restype = gen.pick(["int", "real"])
        frm = Var("p1", restype, role="in")
        formals.append(frm)
        gen.vars[frm.name] = frm
        body_expr = gen.int_expr(2)[0] if restype == "int" \
            else gen.real_expr(2)
        hlp = Helper(f"f{num}_", formals, True, restype,
                     [f"res = {body_expr}"])
        return hlp
    nform = gen.int(1, 3)
    have_written = False
    for idx in range(nform):
        typ = gen.weighted([(5, "real"), (2, "int")])
        role = "inout" if (gen.flip(2, 3) or
                           (idx == nform - 1 and not have_written)) else "in"
        if typ == "real" and gen.flip(1, 3):
            ext = gen.int(2, 6)
            frm = Var(f"p{idx + 1}", "real", ((1, ext),), role=role)
            frm.assumed = gen.flip()
        else:
            frm = Var(f"p{idx + 1}", typ, role=role)
            if typ == "int" and role == "in":
                frm.rng = None
        have_written = have_written or role == "inout"
        formals.append(frm)
        gen.vars[frm.name] = frm
    lvar = Var("hi", "int", role="local")
    gen.hidden_loopvars["hi"] = lvar
    gen.free_loopvars = ["hi"]
    tvar = Var("ht", "real", role="local")
    gen.vars["ht"] = tvar
    lines = ["ht = 0.0"]
    for _ in range(gen.int(1, 3)):
        lines.extend(gen.stmt())
    hlp = Helper(f"h{num}_", formals, False, None, lines)
    hlp.locals = [lvar, tvar] + gen.extra_locals
    gen_outer.features |= {f for f in gen.features
                           if f in ("where", "select", "section")}
    return hlp


def value_stream(seed):
    """Deterministic small-value stream (LCG) from a drawn seed."""
    state = (seed * 2654435761 + 12345) % (1 << 32)
    while True:
        state = (state * 1103515245 + 12345) % (1 << 31)
        yield state >> 8


def make_input(args, seed, flavour=0):
    strm = value_stream(seed)
    inp = {}
    for var in args:
        def one():
            raw = next(strm)
            if var.typ == "int":
                if getattr(var, "valrng", None):
                    lo, hi = var.valrng
                elif var.rng:
                    lo, hi = var.rng
                else:
                    lo, hi = -4, 8
                return lo + raw % (hi - lo + 1)
            if var.typ == "log":
                return bool(raw % 2)
            num = raw % 17 - 8
            den = 2 if raw % 5 == 0 else 1
            return (num, den)
        if var.dims:
            inp[var.name] = [one() for _ in range(var.size())]
        else:
            inp[var.name] = one()
    return inp


@st.composite
def programs(draw, profile=None):
    prof = profile or DEFAULT_PROFILE
    gen = Gen(draw, prof)
    prog = Prog()
    # ---- variables ------------------------------------------------------
    n_var = Var("n", "int", role="in", rng=(0, 6))
    m_var = Var("m", "int", role="in", rng=(1, 3))
    scal = [n_var, m_var, Var("k", "int"), Var("x", "real"),
            Var("y", "real"), Var("lg", "log")]
    scal += [Var(nm, "int", role="in", rng=(0, 1))
             for nm in prof["extra_int_scalars"]]
    if prof["arrays"] is None:
        nar = gen.int(2, 5)
        pool = [v for v in ARRAY_POOL
                if prof["neg_bounds"] or v.name != "dn"]
        perm = draw(st.permutations(range(len(pool))))
        chosen = sorted(perm[:nar])
        arrays = [copy.copy(pool[i]) for i in chosen]
    else:
        arrays = [copy.copy(v) for v in ARRAY_POOL
                  if v.name in prof["arrays"]]
    iarr = Var("ia", "int", ((1, 6),), role="in")
    iarr.valrng = INT_ARRAY_VALUE_RANGE
    if gen.flip(2, 3):
        arrays.append(iarr)
    args = scal + arrays
    for var in args:
        gen.vars[var.name] = var
    locs = [Var("t", "real", role="local"), Var("it", "int", role="local")]
    for name in ("i", "j", "l"):
        locs.append(Var(name, "int", role="local"))
        gen.free_loopvars.append(name)
    for var in locs:
        if var.name in ("i", "j", "l"):
            gen.hidden_loopvars[var.name] = var
        else:
            gen.vars[var.name] = var
    # ---- helpers --------------------------------------------------------
    nhelp = gen.int(*prof["helpers"])
    for num in range(nhelp):
        gen.helpers.append(gen_helper(gen, num + 1, prof))
    # ---- body -----------------------------------------------------------
    # locals are always defined before use
    body = ["t = 0.0", "it = 0"]
    nst = gen.int(*prof["nstmts"])
    ensure_at = gen.int(0, nst) if prof.get("ensure") else -1
    for num in range(nst + 1):
        if num == ensure_at:
            try:
                body.extend(gen.s_ensure(prof["ensure"]))
            except NoFit:
                pass
        if num == nst or gen.budget <= 0:
            continue
        body.extend(gen.stmt())
    # while-loop counters are initialised up front (their loop may sit in
    # a branch that is not taken while later statements read them)
    body[2:2] = [f"{v.name} = " + (".false." if v.typ == "log" else "0")
                 for v in gen.extra_locals]
    prog.args = args
    prog.locals = locs + gen.extra_locals
    prog.body = body
    prog.helpers = gen.helpers
    prog.features = gen.features
    prog.nstmts = prof["budget"] - gen.budget
    seeds = [draw(st.integers(0, 10 ** 6)) for _ in range(prof["ninputs"])]
    prog.inputs = [make_input(args, sd) for sd in seeds]
    # make sure empty / small loop extents are exercised
    if prog.inputs:
        prog.inputs[0]["n"] = draw(st.sampled_from([0, 1, 2, 6]))
    return prog


# ----------------------------------------------------------------------
# statement-level shrinking of a generated program (used for failures that
# are found by batched compilation, outside Hypothesis)
# ----------------------------------------------------------------------
_OPEN = ("do ", "select case", "where (")


def _is_open(line):
    txt = line.strip()
    if txt.startswith("if ") and txt.endswith(" then"):
        return True
    if txt.startswith("do ") or txt.startswith("select case"):
        return True
    if txt.startswith("where (") and _balanced_end(txt):
        return True
    return False


def _balanced_end(txt):
    """True if a 'where (mask)' line has nothing after the mask."""
    depth = 0
    for pos, char in enumerate(txt[6:], 6):
        if char == "(":
            depth += 1
        elif char == ")":
            depth -= 1
            if depth == 0:
                return not txt[pos + 1:].strip()
    return False


def _is_close(line):
    txt = line.strip()
    return txt.startswith("end do") or txt.startswith("end if") or \
        txt.startswith("end select") or txt.startswith("end where")


def _is_mid(line):
    txt = line.strip()
    return txt.startswith("else") or txt.startswith("case ") or \
        txt.startswith("case(") or txt.startswith("elsewhere")


def statement_spans(lines):
    """[(start, end_exclusive, depth)] of every complete statement."""
    spans = []
    stack = []
    for pos, line in enumerate(lines):
        if _is_close(line):
            start = stack.pop()
            spans.append((start, pos + 1, len(stack)))
        elif _is_open(line):
            stack.append(pos)
        elif _is_mid(line):
            continue
        else:
            spans.append((pos, pos + 1, len(stack)))
    return spans


_PROLOGUE = re.compile(
    r"^(t = 0\.0|it = 0|iw\d+ = 0|ht = 0\.0|lw\d+ = \.false\.)$")


def shrink_prog(prog, still_fails, max_checks=80):
    """Greedy statement deletion / unwrapping. `still_fails(prog)->bool`."""
    checks = [0]

    def test(cand):
        checks[0] += 1
        try:
            return still_fails(cand)
        except Exception:        # a broken candidate is simply not smaller
            return False

    cur = prog
    # fewer inputs first
    for keep in range(len(cur.inputs)):
        cand = copy.copy(cur)
        cand.inputs = [cur.inputs[keep]]
        if len(cur.inputs) > 1 and test(cand):
            cur = cand
            break
    progress = True
    while progress and checks[0] < max_checks:
        progress = False
        spans = sorted(statement_spans(cur.body),
                       key=lambda s: (s[2], -(s[1] - s[0])))
        for start, end, _ in spans:
            if checks[0] >= max_checks:
                break
            if end - start == 1 and _PROLOGUE.match(cur.body[start].strip()):
                continue         # keep the prologue initialisations
            cand = copy.copy(cur)
            cand.body = cur.body[:start] + cur.body[end:]
            if test(cand):
                cur = cand
                progress = True
                break
            # unwrap: replace a do/if block by its body (first branch)
            if end - start > 2 and cur.body[start].strip().startswith(
                    ("if ", "do ")):
                inner = cur.body[start + 1:end - 1]
                if not any(_is_mid(ln) and (len(ln) - len(ln.lstrip())) ==
                           (len(cur.body[start]) -
                            len(cur.body[start].lstrip())) for ln in inner) \
                        and cur.body[start].strip().startswith("if "):
                    cand = copy.copy(cur)
                    cand.body = cur.body[:start] + \
                        [ln[2:] for ln in inner] + cur.body[end:]
                    if test(cand):
                        cur = cand
                        progress = True
                        break
    # drop helpers that are no longer referenced
    used = "\n".join(cur.body)
    keep = [h for h in cur.helpers if f"{h.name}@U@" in used]
    if len(keep) != len(cur.helpers):
        cand = copy.copy(cur)
        cand.helpers = keep
        if test(cand):
            cur = cand
    return cur


def text_features(src):
    """Coarse syntactic features of Fortran source (for bucketing)."""
    import re
    low = src.lower()
    feats = set()
    if re.search(r"^\s*(else)?where\b", low, re.M):
        feats.add("where")
    if "select case" in low:
        feats.add("select")
    if re.search(r"\(\s*[^()]*:[^()]*\)", low):
        feats.add("section")
    if re.search(r":\s*\(?-?\d+\)?\s*[,)]", low) and \
            re.search(r":[^,()]*:", low):
        feats.add("strided")
    if re.search(r"\b(sum|product|maxval|minval|dot_product)\s*\(", low):
        feats.add("reduction")
    if "do while" in low:
        feats.add("dowhile")
    if re.search(r"\b(exit|cycle)\b", low):
        feats.add("exitcycle")
    if re.search(r"\bcall\b", low):
        feats.add("call")
    return feats
