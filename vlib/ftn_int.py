"""Fortran integer semantics for the C17 check (and anything else that
needs to evaluate integer PSyIR expressions independently of PSyclone/SymPy).

Terms
-----
Expressions are handled as small JSON-able *terms* (nested lists):

  ["c", 3]                 integer literal
  ["v", "i"]               scalar variable ("s%x" for a structure member)
  ["neg", t] ["pos", t]    unary minus / plus
  ["+"|"-"|"*"|"/"|"**", l, r]
  ["mod", l, r]  ["min", t1, t2, ...]  ["max", ...]  ["abs", t]
  ["arr", "a", i1, ...]    array element ("s%v" for an array member)

`from_psyir(node)` converts a PSyIR expression tree into a term (raising
`Unsupported` for anything that is not an integer expression of this
alphabet); `compile_term(term, sem)` turns a term into a Python closure
`fn(env) -> value` for one of the semantics below.

Semantics
---------
FORTRAN        integers; `/` truncates toward zero; MOD(a,p) = a - p*INT(a/p)
               (sign of the dividend); MIN/MAX; `**` with integer exponent
               (negative exponent = truncated reciprocal power).
MODFLOOR       as FORTRAN but MOD has the sign of the divisor (Python/SymPy).
EXACTDIV       rationals (fractions.Fraction); `/` is exact; MOD as in
               Fortran extended to rationals (a - p*trunc(a/p)).
EXACTDIV_MODFLOOR   rationals, exact `/`, floored MOD.

Division by zero, MOD by zero and 0**negative raise `Undefined` (the
valuation must be skipped: the expression has no value in Fortran).
Integer overflow is not modelled (mathematical integers).

Arrays are uninterpreted functions, realised by a deterministic table
`Env.arr(name, index-tuple)` (a mixing function of the table seed, the name
and the indices; indices may be rationals in the exact semantics).
"""
from __future__ import annotations

import itertools
import math
import zlib
from fractions import Fraction


class Undefined(Exception):
    """The expression has no value under Fortran semantics here."""


class Unsupported(Exception):
    """The tree is outside the integer-expression alphabet."""


class Sem:
    __slots__ = ("name", "exact_div", "floor_mod")

    def __init__(self, name, exact_div, floor_mod):
        self.name = name
        self.exact_div = exact_div
        self.floor_mod = floor_mod

    def __repr__(self):
        return self.name


FORTRAN = Sem("FORTRAN", False, False)
MODFLOOR = Sem("MODFLOOR", False, True)
EXACTDIV = Sem("EXACTDIV", True, False)
EXACTDIV_MODFLOOR = Sem("EXACTDIV_MODFLOOR", True, True)

EV_INEXACT_DIV = 1      # some `/` had a non-zero remainder
EV_MOD_SIGN = 2         # some MOD differed from the floored (SymPy) Mod

_M64 = (1 << 64) - 1
# powers with a larger exponent (and |base| > 1) are not evaluated: the
# valuation is treated like an undefined one (skipped)
MAX_EXPONENT = 64


# --------------------------------------------------------------------------
# scalar operations
# --------------------------------------------------------------------------
def tdiv(a, b):
    """Fortran integer division: truncation toward zero."""
    if b == 0:
        raise Undefined("division by zero")
    q = abs(a) // abs(b)
    return q if (a < 0) == (b < 0) else -q


def fmod(a, p):
    """Fortran MOD(a, p) = a - p*INT(a/p): result has the sign of a."""
    if p == 0:
        raise Undefined("MOD by zero")
    return a - p * tdiv(a, p)


def ipow(a, e):
    """Fortran integer power a**e for integer e."""
    if e > MAX_EXPONENT and abs(a) > 1:
        raise Undefined("exponent too large to evaluate")
    if e >= 0:
        return a ** e
    if a == 0:
        raise Undefined("0 ** negative")
    if a == 1:
        return 1
    if a == -1:
        return 1 if e % 2 == 0 else -1
    return 0


# --------------------------------------------------------------------------
# environment / valuations
# --------------------------------------------------------------------------
def table(tseed, span, name, idx):
    """Deterministic 'uninterpreted function': value in [-span, span]."""
    h = (tseed * 0x9E3779B97F4A7C15 + zlib.crc32(name.encode()) + 1) & _M64
    for v in idx:
        if isinstance(v, Fraction):
            num, den = v.numerator, v.denominator
        else:
            num, den = v, 1
        h = (h * 6364136223846793005 + (num & _M64) * 2654435761
             + den * 40503 + 1442695040888963407) & _M64
        h ^= h >> 29
    h = (h * 0xBF58476D1CE4E5B9) & _M64
    h ^= h >> 32
    return (h >> 7) % (2 * span + 1) - span


class Env:
    """One valuation: scalar values + the array table."""
    __slots__ = ("sc", "tseed", "span", "ev")

    def __init__(self, sc, tseed=0, span=2):
        self.sc = sc
        self.tseed = tseed
        self.span = span
        self.ev = 0

    def arr(self, name, idx):
        return table(self.tseed, self.span, name, idx)

    def describe(self):
        return {"scalars": {k: str(v) for k, v in sorted(self.sc.items())},
                "tseed": self.tseed, "span": self.span}


def _lcg(state):
    return (state * 6364136223846793005 + 1442695040888963407) & _M64


def valuations(names, vseed, heavy=True, nrandom=20, big=60):
    """All valuations of `names` on a small grid plus `nrandom` larger ones.

    Grid radius: 4 for <=2 names (and for 3 names when `heavy`), else
    shrinking so that the grid stays below ~1000 points. The larger
    valuations and the array-table seeds are derived from `vseed` by an LCG
    (no other source of randomness)."""
    names = list(names)
    k = len(names)
    if k <= 2:
        rad = 4
    elif k == 3:
        rad = 4 if heavy else 2
    elif k == 4:
        rad = 2 if heavy else 1
    else:
        rad = 1
    out = []
    state = _lcg(vseed & _M64)
    grid = range(-rad, rad + 1)
    for point in itertools.product(grid, repeat=k):
        out.append(Env(dict(zip(names, point)), tseed=vseed & 0xFFFF, span=2))
    for r in range(nrandom):
        sc = {}
        for nm in names:
            state = _lcg(state)
            sc[nm] = (state >> 33) % (2 * big + 1) - big
        state = _lcg(state)
        out.append(Env(sc, tseed=(state >> 20) & 0xFFFFF,
                       span=(2 if r % 4 == 0 else 25)))
    return out


# --------------------------------------------------------------------------
# terms
# --------------------------------------------------------------------------
BINOPS = ("+", "-", "*", "/", "**")


def from_psyir(node):
    """Convert a PSyIR integer expression into a term."""
    # imported lazily so that this module can be used without PSyclone
    from psyclone.psyir.nodes import (BinaryOperation, IntrinsicCall,
                                      Literal, Range, Reference,
                                      UnaryOperation)
    from psyclone.psyir.symbols import ScalarType
    if isinstance(node, Literal):
        if node.datatype.intrinsic != ScalarType.Intrinsic.INTEGER:
            raise Unsupported(f"non-integer literal {node.value!r}")
        return ["c", int(node.value)]
    if isinstance(node, Reference):
        sig, indices = node.get_signature_and_indices()
        flat = [i for comp in indices for i in comp]
        name = str(sig)
        if not flat:
            if node.is_array:
                raise Unsupported(f"whole-array reference {name}")
            return ["v", name]
        if any(isinstance(i, Range) for i in flat):
            raise Unsupported(f"array section of {name}")
        return ["arr", name] + [from_psyir(i) for i in flat]
    if isinstance(node, UnaryOperation):
        oper = node.operator
        if oper == UnaryOperation.Operator.MINUS:
            return ["neg", from_psyir(node.children[0])]
        if oper == UnaryOperation.Operator.PLUS:
            return ["pos", from_psyir(node.children[0])]
        raise Unsupported(f"unary operator {oper}")
    if isinstance(node, BinaryOperation):
        ops = BinaryOperation.Operator
        sym = {ops.ADD: "+", ops.SUB: "-", ops.MUL: "*", ops.DIV: "/",
               ops.POW: "**"}.get(node.operator)
        if sym is None:
            raise Unsupported(f"binary operator {node.operator}")
        return [sym, from_psyir(node.children[0]),
                from_psyir(node.children[1])]
    if isinstance(node, IntrinsicCall):
        intr = IntrinsicCall.Intrinsic
        name = {intr.MOD: "mod", intr.MIN: "min", intr.MAX: "max",
                intr.ABS: "abs"}.get(node.intrinsic)
        if name is None or any(node.argument_names):
            raise Unsupported(f"intrinsic {node.intrinsic.name}")
        return [name] + [from_psyir(a) for a in node.arguments]
    raise Unsupported(f"node {type(node).__name__}")


def subterms(term):
    """All sub-terms (pre-order), the term itself first."""
    yield term
    kind = term[0]
    if kind in ("c", "v"):
        return
    start = 2 if kind == "arr" else 1
    for child in term[start:]:
        yield from subterms(child)


def size(term):
    return sum(1 for _ in subterms(term))


def scalars(term):
    """Sorted list of scalar variable names."""
    return sorted({t[1] for t in subterms(term) if t[0] == "v"})


def ops(term):
    """Set of operator kinds used (arrays as 'arr')."""
    return {t[0] for t in subterms(term) if t[0] not in ("c", "v")}


def show(term):
    """Fully parenthesised Fortran-like rendering (for messages only)."""
    kind = term[0]
    if kind == "c":
        return str(term[1])
    if kind == "v":
        return term[1]
    if kind == "neg":
        return f"(-{show(term[1])})"
    if kind == "pos":
        return f"(+{show(term[1])})"
    if kind in BINOPS:
        return f"({show(term[1])} {kind} {show(term[2])})"
    if kind == "arr":
        return f"{term[1]}({', '.join(show(t) for t in term[2:])})"
    return f"{kind.upper()}({', '.join(show(t) for t in term[1:])})"


# --------------------------------------------------------------------------
# compilation to closures
# --------------------------------------------------------------------------
def compile_term(term, sem=FORTRAN):
    """Return fn(env) -> value (int, or Fraction for the exact semantics)."""
    kind = term[0]
    exact = sem.exact_div
    if kind == "c":
        val = Fraction(term[1]) if exact else int(term[1])
        return lambda env: val
    if kind == "v":
        name = term[1]
        if exact:
            return lambda env: Fraction(env.sc[name])
        return lambda env: env.sc[name]
    if kind == "neg":
        sub = compile_term(term[1], sem)
        return lambda env: -sub(env)
    if kind == "pos":
        return compile_term(term[1], sem)
    if kind == "abs":
        sub = compile_term(term[1], sem)
        return lambda env: abs(sub(env))
    if kind == "arr":
        name = term[1]
        idx = [compile_term(t, sem) for t in term[2:]]
        if exact:
            return lambda env: Fraction(
                env.arr(name, tuple(f(env) for f in idx)))
        return lambda env: env.arr(name, tuple(f(env) for f in idx))
    if kind in ("min", "max"):
        subs = [compile_term(t, sem) for t in term[1:]]
        if len(subs) < 2:
            raise Unsupported(f"{kind} with {len(subs)} argument(s)")
        pick = min if kind == "min" else max
        return lambda env: pick(f(env) for f in subs)
    if kind not in BINOPS and kind != "mod":
        raise Unsupported(f"term kind {kind!r}")
    if len(term) != 3:
        raise Unsupported(f"{kind} with {len(term) - 1} argument(s)")
    lhs = compile_term(term[1], sem)
    rhs = compile_term(term[2], sem)
    if kind == "+":
        return lambda env: lhs(env) + rhs(env)
    if kind == "-":
        return lambda env: lhs(env) - rhs(env)
    if kind == "*":
        return lambda env: lhs(env) * rhs(env)
    if kind == "/":
        if exact:
            def div_exact(env):
                a = lhs(env)
                b = rhs(env)
                if b == 0:
                    raise Undefined("division by zero")
                return a / b
            return div_exact

        def div_trunc(env):
            a = lhs(env)
            b = rhs(env)
            q = tdiv(a, b)
            if q * b != a:
                env.ev |= EV_INEXACT_DIV
            return q
        return div_trunc
    if kind == "**":
        if exact:
            def pow_exact(env):
                a = lhs(env)
                e = rhs(env)
                if e.denominator != 1:
                    raise Unsupported("non-integer exponent")
                e = e.numerator
                if e < 0 and a == 0:
                    raise Undefined("0 ** negative")
                if abs(e) > MAX_EXPONENT and abs(a) != 1 and a != 0:
                    raise Undefined("exponent too large to evaluate")
                return a ** e
            return pow_exact
        return lambda env: ipow(lhs(env), rhs(env))
    # MOD
    floor_mod = sem.floor_mod
    if exact:
        def mod_exact(env):
            a = lhs(env)
            p = rhs(env)
            if p == 0:
                raise Undefined("MOD by zero")
            if floor_mod:
                return a - p * math.floor(a / p)
            return a - p * math.trunc(a / p)
        return mod_exact

    def mod_int(env):
        a = lhs(env)
        p = rhs(env)
        res = fmod(a, p)
        flo = a % p
        if res != flo:
            env.ev |= EV_MOD_SIGN
            if floor_mod:
                return flo
        return res
    return mod_int


def evaluate(term, env, sem=FORTRAN):
    """Value of `term` under `env` (raises Undefined / Unsupported)."""
    return compile_term(term, sem)(env)


def eval_all(term, envs, sem=FORTRAN):
    """Evaluate over all environments.

    :returns: (values, events) where values[i] is None when the expression
              is undefined for envs[i], and events is the OR of the
              EV_* flags raised on *defined* valuations."""
    fn = compile_term(term, sem)
    vals = []
    events = 0
    for env in envs:
        env.ev = 0
        try:
            vals.append(fn(env))
            events |= env.ev
        except (Undefined, ZeroDivisionError):
            vals.append(None)
    return vals, events
