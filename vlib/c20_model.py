"""Case model for C20 (LFRic built-ins compute their documented operations).

An *invoke case* is a JSON-able dict::

  {"builtins": [{"name": "x_minus_y", "args": ["fa3", "fa1", "fa2"]}, ...],
   "fields":   [{"name": "fa1", "type": "real", "space": "W0",
                 "pattern": [ints]}, ...]          # only the fields used
   "scalars":  [{"name": "ra", "type": "real", "value": 3}, ...],
   "trans":    {"kind": "none"|"parloop"|"region", "reprod": bool,
                "merge": bool, "schedule": "static"|"dynamic"}}

Arguments are field names (possibly ``va(2)``), scalar variable names or
literal text (``-2.0_r_def``, ``3_i_def``, ``2.0``, ``3``). A *configuration*
is (dm, annexed).

This module builds the algorithm layer, evaluates the documented semantics
(vlib/lfric_builtin_spec.py) on the generated data, reads the loop bounds
from the generated PSy layer, applies the OpenMP plan and executes batches
of cases on the LFRic infrastructure (vlib/lfric_rt.py).
"""
from __future__ import annotations

import json
import os
import re
from fractions import Fraction

from vlib import lfric_rt as rt
from vlib import lfric_builtin_spec as spec
from vlib.runner import HarnessError

CONFIGS = [(False, False), (False, True), (True, False), (True, True)]
INT_MAX = 2 ** 31 - 1
EXACT_MAX = 2 ** 17          # see Value below
RTOL = Fraction(1, 10 ** 9)


def cfg_key(dm, annexed):
    return ("dm" if dm else "nodm") + ("+annexed" if annexed else "")


# --------------------------------------------------------------------------
# values
# --------------------------------------------------------------------------
EXACT, APPROX, RAND, UNKNOWN = 0, 1, 2, 3


class Value:
    """Expected value of one DoF / scalar.

    EXACT   integer of magnitude <= 2**17 computed from EXACT operands: every
            intermediate of the documented formula (at most three factors)
            is an integer < 2**53, so IEEE double arithmetic is exact in any
            association and any OpenMP summation order.
    APPROX  anything else that is a definite number (non-integer quotient,
            large product, ...): compared with a relative tolerance.
    RAND    documented as pseudo-random in [0, 1).
    UNKNOWN depends on a RAND value, a division by zero, an integer overflow
            or a discontinuity (INT/SIGN of an inexact value): not compared.
    """
    __slots__ = ("x", "kind", "scale")

    def __init__(self, x, kind=EXACT, scale=0):
        self.x = x
        self.kind = kind
        # largest magnitude met on the way to an APPROX value (tolerance
        # reference: cancellation must not cause false alarms)
        self.scale = scale

    def __repr__(self):
        return {EXACT: "", APPROX: "~", RAND: "rand", UNKNOWN: "?"}[
            self.kind] + ("" if self.x is None else str(self.x))


V_RAND = Value(None, RAND)
V_UNKNOWN = Value(None, UNKNOWN)


def _classify(x, operands, is_int_result):
    if is_int_result:
        if x.denominator != 1:
            raise HarnessError(f"non-integer value {x} for an integer field")
        if abs(x) > INT_MAX:
            return V_UNKNOWN            # overflow: outside the domain
        return Value(x, EXACT)
    exact = (all(o.kind == EXACT for o in operands) and x.denominator == 1
             and abs(x) <= EXACT_MAX)
    if abs(x) > Fraction(10) ** 200:
        return V_UNKNOWN
    if exact:
        return Value(x, EXACT)
    scale = max([abs(x)] + [abs(o.x) for o in operands] +
                [o.scale for o in operands])
    return Value(x, APPROX, scale)


def literal_value(tok):
    """Numeric value of a literal argument token, else None."""
    if re.match(r"^-?\d", tok):
        return Fraction(tok.split("_")[0])
    return None


# --------------------------------------------------------------------------
# documented semantics applied to a case
# --------------------------------------------------------------------------
def initial_state(case, sizes):
    """sizes: field name -> number of DoFs. -> (fields, scalars)"""
    fields = {}
    for fld in case["fields"]:
        fields[fld["name"]] = [Value(Fraction(v)) for v in
                               rt.pattern_data(fld["pattern"],
                                               sizes[fld["name"]])]
    scalars = {s["name"]: Value(Fraction(s["value"]))
               for s in case["scalars"]}
    return fields, scalars


def _special(sp, ops):
    """Discontinuous operations on inexact operands cannot be predicted."""
    key = sp.key
    if key == "real_to_int_x":
        val = ops[1]
        if val.kind == APPROX:
            frac = abs(val.x - round(val.x))
            if frac < Fraction(1, 10 ** 6):
                return V_UNKNOWN
    if key == "sign_x":
        val = ops[2]
        if val.kind == APPROX and abs(val.x) < Fraction(1, 10 ** 9):
            return V_UNKNOWN
    return None


def apply_builtin(call, fields, scalars):
    """Apply the documented operation of one built-in call in place.
    Returns True when it changed at least one DoF / produced a scalar."""
    sp = spec.SPEC[call["name"]]
    if len(call["args"]) != len(sp.args):
        raise HarnessError(f"bad argument count for {call}")
    ops = []              # per argument: list[Value] (field) or Value
    for tok, (_, typ, _) in zip(call["args"], sp.args):
        if typ in ("rf", "if"):
            if tok not in fields:
                raise HarnessError(f"unknown field {tok}")
            ops.append(fields[tok])
        else:
            lit = literal_value(tok)
            if lit is not None:
                ops.append(Value(lit))
            else:
                ops.append(scalars[tok])
    wtok = call["args"][sp.windex]
    wtyp = sp.args[sp.windex][1]
    field_ops = [o for o in ops if isinstance(o, list)]
    ndof = len(field_ops[0])
    if any(len(o) != ndof for o in field_ops):
        raise HarnessError(f"fields of different size in {call}")

    if sp.kind == "random":
        fields[wtok] = [V_RAND] * ndof
        return True
    if sp.kind == "reduction":
        flat = [v for o in field_ops for v in o]
        if any(v.kind >= RAND for v in flat):
            scalars[wtok] = V_UNKNOWN
            return True
        args = [[v.x for v in o] if isinstance(o, list) else o.x
                for o in ops]
        res = Fraction(sp.func(*args))
        if all(v.kind == EXACT for v in flat):
            # integer terms (products < 2**35), partial sums < 2**53 in any
            # order: exact
            scalars[wtok] = Value(res, EXACT)
        else:
            absargs = [[abs(v.x) for v in o] if isinstance(o, list) else o.x
                       for o in ops]
            scale = max([Fraction(sp.func(*absargs))] +
                        [v.scale for v in flat])
            scalars[wtok] = Value(res, APPROX, scale)
        return True
    # DoF-wise
    old = fields[wtok]
    new = []
    changed = False
    for df in range(ndof):
        vals = [o[df] if isinstance(o, list) else o for o in ops]
        # the modified argument of a non-inc built-in is not read
        reads = [v for i, v in enumerate(vals)
                 if i != sp.windex or sp.name.lower().find("inc_") >= 0]
        if any(v.kind >= RAND for v in reads):
            res = V_UNKNOWN
        else:
            res = _special(sp, vals)
            if res is None:
                try:
                    raw = sp.func(*[v.x if v.x is not None else Fraction(0)
                                    for v in vals])
                    res = _classify(Fraction(raw), reads, wtyp == "if")
                except ZeroDivisionError:
                    res = V_UNKNOWN
        new.append(res)
        if res.kind != EXACT or old[df].kind != EXACT or res.x != old[df].x:
            changed = True
    fields[wtok] = new
    return changed


def expected(case, sizes):
    """-> (fields, scalars, changed flags per built-in)"""
    fields, scalars = initial_state(case, sizes)
    flags = [apply_builtin(call, fields, scalars)
             for call in case["builtins"]]
    return fields, scalars, flags


def reads_writes(call):
    sp = spec.SPEC[call["name"]]
    wtok = call["args"][sp.windex]
    reads = set()
    for i, (tok, (_, _, acc)) in enumerate(zip(call["args"], sp.args)):
        if literal_value(tok) is not None:
            continue
        if i != sp.windex or "inc_" in sp.key:
            reads.add(tok)
    return reads, wtok


def observable(case):
    """Which built-in calls influence the printed final state (liveness)."""
    dead = set()         # variables overwritten before being observed
    out = [False] * len(case["builtins"])
    for idx in range(len(case["builtins"]) - 1, -1, -1):
        reads, wtok = reads_writes(case["builtins"][idx])
        if wtok not in dead:
            out[idx] = True
            if wtok not in reads:
                dead.add(wtok)
            dead -= reads
    return out


def _close(obs, val):
    if val.kind == UNKNOWN:
        return True
    if isinstance(obs, float):          # nan / inf
        return False
    if val.kind == EXACT:
        return obs == val.x
    if val.kind == APPROX:
        return abs(obs - val.x) <= RTOL * max(1, abs(val.x), val.scale)
    if val.kind == RAND:
        return 0 <= obs < 1
    return True


def compare(case, observed):
    """observed: {"fields": {name: [..]}, "scalars": {name: v}} from the
    driver. -> None or (variable, message)."""
    sizes = {}
    for fld in case["fields"]:
        if fld["name"] not in observed["fields"]:
            raise HarnessError(f"driver printed no field {fld['name']}")
        sizes[fld["name"]] = len(observed["fields"][fld["name"]])
        if sizes[fld["name"]] < 8:
            raise HarnessError(f"field {fld['name']} has "
                               f"{sizes[fld['name']]} DoFs")
    by_space = {}
    for fld in case["fields"]:
        by_space.setdefault(fld["space"], set()).add(sizes[fld["name"]])
    if any(len(v) != 1 for v in by_space.values()):
        raise HarnessError(f"inconsistent undf per space: {by_space}")
    fields, scalars, _ = expected(case, sizes)
    for fld in case["fields"]:
        nam = fld["name"]
        exp = fields[nam]
        obs = observed["fields"][nam]
        bad = [i for i in range(len(exp)) if not _close(obs[i], exp[i])]
        if bad:
            i = bad[0]
            return nam, (f"field {nam}: {len(bad)} of {len(exp)} DoFs differ "
                         f"from the documented result; first at DoF {i + 1}: "
                         f"documented {exp[i]!r}, computed "
                         f"{_show(obs[i])}")
    for sca in case["scalars"]:
        nam = sca["name"]
        if nam not in observed["scalars"]:
            raise HarnessError(f"driver printed no scalar {nam}")
        if not _close(observed["scalars"][nam], scalars[nam]):
            return nam, (f"scalar {nam}: documented {scalars[nam]!r}, "
                         f"computed {_show(observed['scalars'][nam])}")
    return None


def _show(val):
    if isinstance(val, Fraction):
        return str(val) if val.denominator == 1 else str(float(val))
    return str(val)


def last_writer(case, var):
    for call in reversed(case["builtins"]):
        if reads_writes(call)[1] == var:
            return call["name"]
    return "none"


# --------------------------------------------------------------------------
# algorithm layer
# --------------------------------------------------------------------------
def _base(name):
    return name.split("(")[0]


def call_args(case):
    """Dummy/actual argument names of the algorithm subroutine: field base
    names (arrays once), then scalars."""
    names = []
    for fld in case["fields"]:
        if _base(fld["name"]) not in names:
            names.append(_base(fld["name"]))
    names += [s["name"] for s in case["scalars"]]
    return names


def invoke_text(case):
    calls = []
    for call in case["builtins"]:
        sp = spec.SPEC[call["name"]]
        calls.append(f"{sp.name}({', '.join(call['args'])})")
    return "call invoke( " + ", &\n                 ".join(calls) + " )"


def algorithm_source(module, subs):
    """subs: list of (subroutine name, case). One invoke per subroutine."""
    types = sorted({f["type"] for _, c in subs for f in c["fields"]})
    out = [f"module {module}",
           "  use constants_mod, only: r_def, i_def, r_solver, r_tran"]
    for typ in types:
        mod, ftype, _, _, _ = rt.FIELD_TYPES[typ]
        out.append(f"  use {mod}, only: {ftype}")
    out += ["  implicit none", "contains"]
    for sub, case in subs:
        out.append(f"  subroutine {sub}({', '.join(call_args(case))})")
        dims, ftypes = {}, {}
        for fld in case["fields"]:
            base = _base(fld["name"])
            ftypes[base] = fld["type"]
            idx = (int(fld["name"].split("(")[1].rstrip(")"))
                   if "(" in fld["name"] else 0)
            dims[base] = max(dims.get(base, 0), idx)
        written = {reads_writes(c)[1] for c in case["builtins"]}
        for base, dim in dims.items():
            ftype = rt.FIELD_TYPES[ftypes[base]][1]
            out.append(f"    type({ftype}), intent(in) :: {base}" +
                       (f"({dim})" if dim else ""))
        for sca in case["scalars"]:
            intent = "inout" if sca["name"] in written else "in"
            decl = ("real(r_def)" if sca["type"] == "real"
                    else "integer(i_def)")
            out.append(f"    {decl}, intent({intent}) :: {sca['name']}")
        out.append("    " + invoke_text(case))
        out.append(f"  end subroutine {sub}")
    out.append(f"end module {module}")
    return "\n".join(out) + "\n"


def driver_case(tag, module, sub, case):
    fields = []
    seen = set()
    for fld in case["fields"]:
        fields.append(dict(fld))
    args = []
    for nam in call_args(case):
        if nam not in seen:
            seen.add(nam)
            args.append(nam)
    return {"name": tag, "module": module, "sub": sub, "fields": fields,
            "scalars": [dict(s) for s in case["scalars"]], "args": args}


# --------------------------------------------------------------------------
# loop bounds read from the generated PSy layer (oracle b)
# --------------------------------------------------------------------------
_SUB_RE = re.compile(r"^\s*SUBROUTINE\s+(\w+)\s*\(.*?^\s*END SUBROUTINE\s+\1",
                     re.M | re.S | re.I)


def split_subroutines(psy_text):
    """-> list of (name, text) in order of appearance."""
    return [(m.group(1), m.group(0)) for m in _SUB_RE.finditer(psy_text)]


def classify_bound(expr, sub_text):
    """'undf' | 'owned' | 'annexed' | 'halo' | 'other:<expr>'"""
    expr = expr.strip()
    mat = re.fullmatch(r"(\w+)%vspace%get_last_dof_(owned|annexed)\(\)",
                       expr, re.I)
    if mat:
        return mat.group(2).lower()
    if re.fullmatch(r"\w+%vspace%get_last_dof_halo\(.*\)", expr, re.I):
        return "halo"
    if re.fullmatch(r"\w+", expr):
        # a variable: must be assigned once from ...%vspace%get_undf()
        asg = re.findall(rf"^\s*{re.escape(expr)}\s*=\s*(.+?)\s*$", sub_text,
                         re.M | re.I)
        if len(asg) == 1 and re.fullmatch(r"\w+%vspace%get_undf\(\)",
                                          asg[0], re.I):
            return "undf"
    return "other:" + expr


def read_bounds(sub_text):
    """DoF loops of one PSy-layer subroutine, in order:
    [{"builtin": name-from-comment, "lower": expr, "upper": kind}]"""
    assigns = {}
    for mat in re.finditer(r"^\s*(loop\d+_(?:start|stop))\s*=\s*(.+?)\s*$",
                           sub_text, re.M | re.I):
        assigns.setdefault(mat.group(1).lower(), []).append(mat.group(2))
    loops = []
    lines = sub_text.splitlines()
    for num, line in enumerate(lines):
        mat = re.match(r"^\s*DO\s+df\s*=\s*([^,]+),\s*([^,]+?)(?:,\s*(\S+))?"
                       r"\s*$", line, re.I)
        if not mat:
            continue
        low, upp, step = (mat.group(1).strip(), mat.group(2).strip(),
                          mat.group(3))
        for _ in range(2):
            if low.lower() in assigns:
                vals = assigns[low.lower()]
                low = vals[0] if len(vals) == 1 else "multiple:" + str(vals)
            if upp.lower() in assigns:
                vals = assigns[upp.lower()]
                upp = vals[0] if len(vals) == 1 else "multiple:" + str(vals)
        name = None
        for nxt in lines[num + 1:num + 4]:
            cmt = re.match(r"^\s*!\s*Built-in:\s*(\w+)", nxt)
            if cmt:
                name = cmt.group(1).lower()
                break
        loops.append({"builtin": name, "lower": low, "step": step or "1",
                      "upper": classify_bound(upp, sub_text)})
    return loops


def check_bounds(case, dm, annexed, sub_text):
    """-> None or (builtin name, message)."""
    loops = read_bounds(sub_text)
    calls = case["builtins"]
    if len(loops) != len(calls):
        return ("structure", f"{len(loops)} DoF loops for {len(calls)} "
                f"built-ins in the generated PSy layer")
    for loop, call in zip(loops, calls):
        sp = spec.SPEC[call["name"]]
        if loop["builtin"] != sp.key:
            return ("structure", f"loop order: expected {sp.key}, found "
                    f"{loop['builtin']}")
        if loop["lower"] != "1" or loop["step"] != "1":
            return (sp.key, f"{sp.name}: DoF loop starts at "
                    f"'{loop['lower']}' step '{loop['step']}', documented "
                    f"start is 1")
        want = spec.documented_upper_bound(dm, annexed,
                                           sp.kind == "reduction")
        if loop["upper"] != want:
            return (sp.key, f"{sp.name} with {cfg_key(dm, annexed)}: loop "
                    f"upper bound is '{loop['upper']}', documented range "
                    f"ends at '{want}'")
    return None


# --------------------------------------------------------------------------
# OpenMP plan
# --------------------------------------------------------------------------
def apply_plan(invoke, plan):
    """Apply the OpenMP plan to one invoke. -> None or a refusal string
    (the schedule may then be partially transformed: caller rebuilds)."""
    kind = plan.get("kind", "none")
    if kind == "none":
        return None
    from psyclone.psyir.nodes import Loop, Directive
    from psyclone.psyir.transformations import TransformationError
    from psyclone.transformations import (DynamoOMPParallelLoopTrans,
                                          Dynamo0p3OMPLoopTrans,
                                          OMPParallelTrans)
    sched = invoke.schedule
    omp_sched = plan.get("schedule", "static")
    try:
        if kind == "parloop":
            trans = DynamoOMPParallelLoopTrans(omp_schedule=omp_sched)
            for loop in sched.walk(Loop):
                trans.apply(loop)
        elif kind == "region":
            trans = Dynamo0p3OMPLoopTrans(omp_schedule=omp_sched)
            for loop in sched.walk(Loop):
                trans.apply(loop, {"reprod": bool(plan.get("reprod"))})
            runs, cur = [], []
            for child in sched.children:
                if isinstance(child, Directive):
                    cur.append(child)
                    if not plan.get("merge"):
                        runs.append(cur)
                        cur = []
                else:
                    if cur:
                        runs.append(cur)
                    cur = []
            if cur:
                runs.append(cur)
            ptrans = OMPParallelTrans()
            for run in runs:
                ptrans.apply(run)
        else:
            raise HarnessError(f"unknown plan {plan}")
    except TransformationError as err:
        return "TransformationError: " + " ".join(str(err).split())[:160]
    return None


SCRIPT = '''"""Generated transformation script (C20)."""
import json
from vlib import c20_model
PLANS = json.loads(%r)


def trans(psy):
    for invoke, plan in zip(psy.invokes.invoke_list, PLANS):
        msg = c20_model.apply_plan(invoke, plan)
        if msg:
            raise RuntimeError("C20-REFUSED " + msg)
    return psy
'''


# --------------------------------------------------------------------------
# execution
# --------------------------------------------------------------------------
class Outcome:
    """Result of one (case, configuration).

    status  'ok'       executed; .runs = {nthreads: observed dict}
            'refused'  PSyclone refused (transformation / generation error)
            'gencrash' PSyclone raised a non-PSyclone exception
            'compile'  gfortran rejected the generated PSy/alg layer
            'runtime'  the executable failed
    """

    def __init__(self, status, detail="", sub_text="", runs=None,
                 trans_refused=None):
        self.status = status
        self.detail = detail
        self.sub_text = sub_text
        self.runs = runs or {}
        self.trans_refused = trans_refused


def _crash_text(out):
    """The interesting part of a crashed run's output."""
    keep = [ln for ln in out.splitlines()
            if re.search(r"error|signal|SIG|At line|Fortran runtime|exit \d",
                         ln)]
    return " | ".join(keep)[:600] or out[-600:]


def has_omp(case):
    return case.get("trans", {}).get("kind", "none") != "none"


def _gen_psy(info, cases, cfg_path, dm):
    """-> (psy_text, [refusal or None per case], psy object)"""
    psy = rt.make_psy(info, cfg_path, dm=dm)
    invokes = psy.invokes.invoke_list
    if len(invokes) != len(cases):
        raise HarnessError(f"{len(invokes)} invokes for {len(cases)} cases")
    refused = [None] * len(cases)
    for idx, (invoke, case) in enumerate(zip(invokes, cases)):
        msg = apply_plan(invoke, case.get("trans", {}))
        if msg:
            refused[idx] = msg
    if any(refused):
        # rebuild, leaving the refused invokes untransformed
        psy = rt.make_psy(info, cfg_path, dm=dm)
        for idx, (invoke, case) in enumerate(
                zip(psy.invokes.invoke_list, cases)):
            if not refused[idx]:
                apply_plan(invoke, case.get("trans", {}))
    return str(psy.gen) + "\n", refused, psy


def execute(cases, configs, workdir, infra, threads=(1, 3, 4), tag="b",
            via="inproc"):
    """Generate, compile and run a batch. -> {(case index, config index):
    Outcome}. Batch-level problems are isolated by re-running the cases one
    by one."""
    from psyclone.errors import PSycloneError
    os.makedirs(workdir, exist_ok=True)
    module = f"{tag}_alg_mod"
    subs = [(f"{tag}_s{idx}", case) for idx, case in enumerate(cases)]
    alg_path = os.path.join(workdir, f"{tag}_alg.x90")
    with open(alg_path, "w") as fout:
        fout.write(algorithm_source(module, subs))
    results = {}

    def isolate(cidx_list, why):
        if len(cases) == 1:
            return False
        for idx, case in enumerate(cases):
            sub = execute([case], [configs[c] for c in cidx_list],
                          os.path.join(workdir, f"iso{idx}"), infra,
                          threads=threads, tag=f"{tag}i{idx}", via=via)
            for (_, cpos), outc in sub.items():
                results[(idx, cidx_list[cpos])] = outc
        return True

    def all_status(cidx_list, status, detail):
        for cidx in cidx_list:
            for idx in range(len(cases)):
                results[(idx, cidx)] = Outcome(status, detail)

    every = list(range(len(configs)))
    # ---- parse once ----------------------------------------------------
    ast = info = None
    if via != "script":
        rt.load_config(rt.write_config(alg_path + ".cfg"))
        try:
            ast, info = rt.parse_algorithm(alg_path)
        except (PSycloneError, NotImplementedError) as err:
            if not isolate(every, "parse"):
                all_status(every, "refused", "parse: " +
                           " ".join(str(err).split())[:200])
            return results
    # ---- PSy layer per configuration -----------------------------------
    psy_texts = {}
    refusals = {}
    last_psy = None
    alg_text = None
    for cidx, (dm, annexed) in enumerate(configs):
        cfg_path = os.path.join(workdir, f"cfg{cidx}.cfg")
        rt.write_config(cfg_path, COMPUTE_ANNEXED_DOFS=annexed)
        try:
            if via == "script":
                script = os.path.join(workdir, f"{tag}_script{cidx}.py")
                with open(script, "w") as fout:
                    fout.write(SCRIPT % json.dumps(
                        [c.get("trans", {}) for c in cases]))
                alg_text, text = rt.generate(alg_path, dm=dm, script=script,
                                             COMPUTE_ANNEXED_DOFS=annexed)
                psy_texts[cidx] = text + "\n"
                refusals[cidx] = [None] * len(cases)
            else:
                text, refused, last_psy = _gen_psy(info, cases, cfg_path, dm)
                psy_texts[cidx] = text
                refusals[cidx] = refused
        except (PSycloneError, NotImplementedError) as err:
            if not isolate([cidx], "gen"):
                all_status([cidx], "refused",
                           " ".join(str(err).split())[:200])
        except HarnessError:
            raise
        except Exception as err:            # pylint: disable=broad-except
            from vlib import psy as vpsy
            if not isolate([cidx], "gencrash"):
                all_status([cidx], "gencrash", vpsy.exc_key(err) + ": " +
                           " ".join(str(err).split())[:160])
    live = [c for c in every if c in psy_texts]
    if not live:
        return results
    # ---- algorithm layer + driver (once) -------------------------------
    if alg_text is None:
        alg_text = rt.algorithm_text(ast, last_psy)
    alg_text += "\n"
    with open(os.path.join(workdir, f"{tag}_alg.f90"), "w") as fout:
        fout.write(alg_text)
    dcases = [driver_case(f"{tag}c{idx}", module, sub, case)
              for idx, ((sub, case)) in enumerate(subs)]
    with open(os.path.join(workdir, f"{tag}_drv.f90"), "w") as fout:
        fout.write(rt.driver_source(dcases))
    flags = ["-fopenmp"]
    shared_objs = None
    for cidx in live:
        cdir = os.path.join(workdir, f"cfg{cidx}")
        os.makedirs(cdir, exist_ok=True)
        psy_path = os.path.join(cdir, f"{tag}_psy.f90")
        with open(psy_path, "w") as fout:
            fout.write(psy_texts[cidx])
        subs_text = split_subroutines(psy_texts[cidx])
        if len(subs_text) != len(cases):
            raise HarnessError(f"{len(subs_text)} PSy subroutines for "
                               f"{len(cases)} invokes")
        try:
            objs = rt.compile_objects(cdir, [psy_path], infra, flags)
        except rt.CompileError as err:
            if not isolate([cidx], "compile"):
                all_status([cidx], "compile", str(err)[:1500])
                results[(0, cidx)].sub_text = subs_text[0][1]
            continue
        if shared_objs is None:
            try:
                shared_objs = rt.compile_objects(
                    cdir, [os.path.join(workdir, f"{tag}_alg.f90"),
                           os.path.join(workdir, f"{tag}_drv.f90")],
                    infra, flags)
            except rt.CompileError as err:
                # the algorithm layer / driver does not compile
                if not isolate(live, "compile-alg"):
                    all_status(live, "compile", "algorithm layer/driver: " +
                               str(err)[:1500])
                return results
        try:
            exe = rt.link(cdir, objs + shared_objs, infra, flags)
        except rt.CompileError as err:
            raise HarnessError(f"link failed: {err}") from err
        need = sorted(threads) if any(has_omp(c) for c in cases) else [1]
        per_case = [dict() for _ in cases]       # nth -> observed | RunError
        for nth in need:
            env = {"OMP_NUM_THREADS": str(nth)}
            try:
                parsed = rt.parse_driver_output(rt.run_exe(exe, env))
                for idx in range(len(cases)):
                    per_case[idx][nth] = parsed.get(f"{tag}c{idx}")
            except rt.RunError as err:
                if len(cases) == 1:
                    per_case[0][nth] = err
                    continue
                # isolate the crashing case(s): same executable, one case
                # per process
                for idx in range(len(cases)):
                    try:
                        parsed = rt.parse_driver_output(
                            rt.run_exe(exe, env, args=[idx + 1]))
                        per_case[idx][nth] = parsed.get(f"{tag}c{idx}")
                    except rt.RunError as err1:
                        per_case[idx][nth] = err1
        for idx, case in enumerate(cases):
            mine = {}
            crash = None
            for nth in need:
                if not has_omp(case) and nth != need[0]:
                    continue
                got = per_case[idx][nth]
                if isinstance(got, rt.RunError):
                    crash = (nth, str(got))
                    break
                if got is None or not got["complete"]:
                    raise HarnessError(f"no output for case {idx}")
                mine[nth] = got
            if crash:
                results[(idx, cidx)] = Outcome(
                    "runtime", f"OMP_NUM_THREADS={crash[0]}: " +
                    _crash_text(crash[1]), subs_text[idx][1])
            else:
                results[(idx, cidx)] = Outcome(
                    "ok", "", subs_text[idx][1], mine,
                    trans_refused=refusals[cidx][idx])
    return results
