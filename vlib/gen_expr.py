"""Generators of well-typed PSyIR expression trees (property C02).

An expression is described by a JSON-able *spec* (nested lists); the spec is
the ground truth of a test case - the PSyIR tree, the independent
fully-parenthesised reference text and the exact value are all derived from
it (the last two in vlib/c02_eval.py, without using PSyclone).

  ["lit", ty, text, prec]      ty: int|real|bool|char
                               prec: undef|single|double|4|8|"wp"|"ik"
  ["ref", name]                scalar variable
  ["arr", name, [idx...]]      array element
  ["sref", name, members]      structure access; members = [[name,[idx..]],..]
  ["asref", name, [idx..], members]   element of an array of structures
  ["un", OP, x]                OP in UnaryOperation.Operator  (MINUS PLUS NOT)
  ["bin", OP, x, y]            OP in BinaryOperation.Operator (REM excluded)
  ["call", NAME, [args], kind] MAX MIN ABS MOD SIGN REAL INT; kind: None|"wp"

Static types are (t, kind): t in i r l c; kind 4/8 (1 for l/c).
"""
from __future__ import annotations

import json

from hypothesis import strategies as st

# --------------------------------------------------------------------------
# operators
# --------------------------------------------------------------------------
UNARY_NUM = ("MINUS", "PLUS")
ARITH = ("ADD", "SUB", "MUL", "DIV", "POW")
REL = ("EQ", "NE", "GT", "LT", "GE", "LE")
LOGIC = ("AND", "OR", "EQV", "NEQV")
ALL_UNARY = UNARY_NUM + ("NOT",)
ALL_BINARY = ARITH + REL + LOGIC
INTRINSICS = ("MAX", "MIN", "ABS", "MOD", "SIGN", "REAL", "INT")

# Fortran 2008 operator precedence (own table, only used for the
# non-triviality rule and the classifiers - never as an oracle).
PREC = {"EQV": 0, "NEQV": 0, "OR": 1, "AND": 2, "NOT": 3,
        "EQ": 4, "NE": 4, "GT": 4, "LT": 4, "GE": 4, "LE": 4,
        "ADD": 6, "SUB": 6, "MINUS": 6, "PLUS": 6,
        "MUL": 7, "DIV": 7, "POW": 8}

# --------------------------------------------------------------------------
# the fixed set of program entities (mirrored by the Fortran wrapper)
# --------------------------------------------------------------------------
# name -> (t, kind, shape)
SCALARS = {}
for _n in range(1, 9):
    SCALARS[f"i{_n}"] = ("i", 4)
    SCALARS[f"l{_n}"] = ("l", 1)
SCALARS.update({"k1": ("i", 4), "k2": ("i", 4), "j1": ("i", 8),
                "r1": ("r", 4), "r2": ("r", 4), "r3": ("r", 4),
                "d1": ("r", 8), "w1": ("r", 8), "c1": ("c", 1)})
ARRAYS = {"ia": (("i", 4), (5,)), "ra": (("r", 4), (4, 3)),
          "la": (("l", 1), (3,))}
# derived types:  tsub {x};  t {i, x, f, v(3), sub}
TSUB = {"x": (("r", 4), ())}
TT = {"i": (("i", 4), ()), "x": (("r", 4), ()), "f": (("l", 1), ()),
      "v": (("r", 4), (3,)), "sub": ("tsub", ())}
STRUCTS = {"s": ()}            # scalar of type t
STRUCT_ARRAYS = {"sa": (2,)}   # array of type t
KIND_PARAMS = {"wp": 8, "ik": 4}


def canon(spec):
    return json.dumps(spec, separators=(",", ":"))


def fix(spec):
    """tuples -> lists (so that specs compare equal after a JSON trip)."""
    if isinstance(spec, (list, tuple)):
        return [fix(x) for x in spec]
    return spec


# --------------------------------------------------------------------------
# generic traversal
# --------------------------------------------------------------------------
def children(spec):
    """Expression children of a spec node, in order."""
    kind = spec[0]
    if kind in ("lit", "ref"):
        return []
    if kind == "arr":
        return list(spec[2])
    if kind == "sref":
        return [i for _, idx in spec[2] for i in idx]
    if kind == "asref":
        return list(spec[2]) + [i for _, idx in spec[3] for i in idx]
    if kind == "un":
        return [spec[2]]
    if kind == "bin":
        return [spec[2], spec[3]]
    if kind == "call":
        return list(spec[2])
    raise ValueError(f"bad spec node {spec!r}")


def rebuild(spec, new_children):
    """Copy of `spec` with its expression children replaced."""
    kind = spec[0]
    it = iter(new_children)
    if kind in ("lit", "ref"):
        return list(spec)
    if kind == "arr":
        return ["arr", spec[1], [next(it) for _ in spec[2]]]
    if kind == "sref":
        return ["sref", spec[1],
                [[m, [next(it) for _ in idx]] for m, idx in spec[2]]]
    if kind == "asref":
        idx0 = [next(it) for _ in spec[2]]
        return ["asref", spec[1], idx0,
                [[m, [next(it) for _ in idx]] for m, idx in spec[3]]]
    if kind == "un":
        return ["un", spec[1], next(it)]
    if kind == "bin":
        return ["bin", spec[1], next(it), next(it)]
    if kind == "call":
        return ["call", spec[1], [next(it) for _ in spec[2]], spec[3]]
    raise ValueError(f"bad spec node {spec!r}")


def walk(spec, parent=None, pos=None):
    """Yield (node, parent, position-in-parent) in pre-order."""
    yield spec, parent, pos
    for idx, child in enumerate(children(spec)):
        yield from walk(child, spec, idx)


def transform(spec, fn):
    """Bottom-up rewrite: fn(node_with_rewritten_children) -> node."""
    return fn(rebuild(spec, [transform(c, fn) for c in children(spec)]))


def is_op(spec):
    return spec[0] in ("un", "bin")


def nops(spec):
    return sum(1 for n, _, _ in walk(spec) if is_op(n))


def size(spec):
    return sum(1 for _ in walk(spec))


def depth(spec):
    """Number of nested non-leaf levels (a leaf without index has depth 0)."""
    kids = children(spec)
    if not kids:
        return 0
    return 1 + max(depth(c) for c in kids)


def nontrivial(spec):
    """RULE: >= 2 operators and at least one parent/child operator pair for
    which parenthesisation matters."""
    if nops(spec) < 2:
        return False
    for node, parent, _ in walk(spec):
        if parent is None or not is_op(node) or not is_op(parent):
            continue
        if node[0] == "un":
            return True
        if PREC[node[1]] <= PREC[parent[1]]:
            return True
    return False


# --------------------------------------------------------------------------
# static typing (also validates that a spec is well-typed Fortran)
# --------------------------------------------------------------------------
class IllTyped(Exception):
    pass


def lit_kind(ty, prec):
    if ty == "int":
        if prec in ("undef", 4, "ik"):
            return 4
        if prec == 8:
            return 8
    elif ty == "real":
        if prec in ("undef", "single", 4):
            return 4
        if prec in ("double", 8, "wp"):
            return 8
    elif ty == "bool":
        if prec in ("undef", 4, "wp"):
            return 1
    elif ty == "char":
        if prec == "undef":
            return 1
    raise IllTyped(f"unsupported literal precision {ty}/{prec}")


def _member_type(members):
    cur = TT
    res = None
    for pos, (name, idx) in enumerate(members):
        if name not in cur:
            raise IllTyped(f"no component {name}")
        typ, shape = cur[name]
        if len(idx) != len(shape):
            raise IllTyped(f"rank mismatch for component {name}")
        for i in idx:
            if stype(i)[0] != "i":
                raise IllTyped("non-integer index")
        if typ == "tsub":
            cur = TSUB
            res = None
        else:
            res = typ
            if pos != len(members) - 1:
                raise IllTyped("member of a non-structure")
    if res is None:
        raise IllTyped("structure-valued access")
    return res


def stype(spec):
    """(t, kind) of a spec; raises IllTyped."""
    kind = spec[0]
    if kind == "lit":
        _, ty, _, prec = spec
        return ({"int": "i", "real": "r", "bool": "l", "char": "c"}[ty],
                lit_kind(ty, prec))
    if kind == "ref":
        if spec[1] not in SCALARS:
            raise IllTyped(f"unknown scalar {spec[1]}")
        return SCALARS[spec[1]]
    if kind == "arr":
        typ, shape = ARRAYS[spec[1]]
        if len(shape) != len(spec[2]):
            raise IllTyped("rank mismatch")
        for i in spec[2]:
            if stype(i)[0] != "i":
                raise IllTyped("non-integer index")
        return typ
    if kind == "sref":
        if spec[1] not in STRUCTS:
            raise IllTyped("unknown structure")
        return _member_type(spec[2])
    if kind == "asref":
        if spec[1] not in STRUCT_ARRAYS or \
                len(spec[2]) != len(STRUCT_ARRAYS[spec[1]]):
            raise IllTyped("bad array of structures")
        for i in spec[2]:
            if stype(i)[0] != "i":
                raise IllTyped("non-integer index")
        return _member_type(spec[3])
    if kind == "un":
        typ = stype(spec[2])
        if spec[1] == "NOT":
            if typ[0] != "l":
                raise IllTyped(".NOT. of non-logical")
            return ("l", 1)
        if spec[1] not in UNARY_NUM or typ[0] not in "ir":
            raise IllTyped("unary +/- of non-numeric")
        return typ
    if kind == "bin":
        oper = spec[1]
        lty, rty = stype(spec[2]), stype(spec[3])
        if oper in ARITH:
            if lty[0] not in "ir" or rty[0] not in "ir":
                raise IllTyped("arithmetic on non-numeric")
            if oper == "POW":
                # harness restriction: integer exponents only
                if rty[0] != "i":
                    raise IllTyped("non-integer exponent")
                if lty[0] == "r":
                    return lty
                return ("i", max(lty[1], rty[1]))
            if lty[0] == rty[0]:
                return (lty[0], max(lty[1], rty[1]))
            return lty if lty[0] == "r" else rty
        if oper in REL:
            if lty[0] in "ir" and rty[0] in "ir":
                return ("l", 1)
            if lty[0] == "c" and rty[0] == "c":
                return ("l", 1)
            raise IllTyped("relational operands")
        if oper in LOGIC:
            if lty[0] != "l" or rty[0] != "l":
                raise IllTyped("logical operands")
            return ("l", 1)
        raise IllTyped(f"unknown operator {oper}")
    if kind == "call":
        _, name, args, kindarg = spec
        tys = [stype(a) for a in args]
        if any(t[0] not in "ir" for t in tys):
            raise IllTyped("intrinsic argument not numeric")
        if name in ("MAX", "MIN", "MOD", "SIGN"):
            if kindarg is not None or len(set(tys)) != 1:
                raise IllTyped(f"{name} arguments differ in type/kind")
            if name in ("MOD", "SIGN") and len(args) != 2:
                raise IllTyped("arity")
            if name in ("MAX", "MIN") and len(args) < 2:
                raise IllTyped("arity")
            return tys[0]
        if len(args) != 1:
            raise IllTyped("arity")
        if name == "ABS":
            if kindarg is not None:
                raise IllTyped("ABS kind")
            return tys[0]
        if name == "REAL":
            # PSyIR only allows a Reference as the argument of REAL
            if args[0][0] not in ("ref", "arr", "sref", "asref"):
                raise IllTyped("REAL of a non-reference")
            return ("r", 8 if kindarg == "wp" else 4)
        if name == "INT":
            if kindarg is not None:
                raise IllTyped("INT kind")
            return ("i", 4)
        raise IllTyped(f"unknown intrinsic {name}")
    raise IllTyped(f"bad spec {spec!r}")


# --------------------------------------------------------------------------
# spec -> PSyIR
# --------------------------------------------------------------------------
class Builder:
    """Holds the symbol table that mirrors the Fortran wrapper and builds
    PSyIR trees from specs."""

    def __init__(self):
        from psyclone.psyir.nodes import Literal
        from psyclone.psyir.symbols import (
            ArrayType, BOOLEAN_TYPE, CHARACTER_TYPE, DataSymbol,
            DataTypeSymbol, INTEGER_TYPE, REAL_DOUBLE_TYPE, REAL_TYPE,
            ScalarType, StructureType, Symbol, SymbolTable)
        self.table = SymbolTable()
        self.syms = {}
        for name, val in KIND_PARAMS.items():
            sym = DataSymbol(name, INTEGER_TYPE, is_constant=True,
                             initial_value=Literal(str(val), INTEGER_TYPE))
            self.table.add(sym)
            self.syms[name] = sym
        intr = ScalarType.Intrinsic

        def scalar_type(typ, name=None):
            tch, kind = typ
            if tch == "i":
                return INTEGER_TYPE if kind == 4 else \
                    ScalarType(intr.INTEGER, 8)
            if tch == "r":
                if kind == 4:
                    return REAL_TYPE
                if name == "w1":
                    return ScalarType(intr.REAL, self.syms["wp"])
                return REAL_DOUBLE_TYPE
            if tch == "l":
                return BOOLEAN_TYPE
            return CHARACTER_TYPE
        for name, typ in SCALARS.items():
            self._add(DataSymbol(name, scalar_type(typ, name)))
        for name, (typ, shape) in ARRAYS.items():
            self._add(DataSymbol(name, ArrayType(scalar_type(typ),
                                                 list(shape))))
        pub = Symbol.Visibility.PUBLIC
        tsub = DataTypeSymbol("tsub", StructureType.create(
            [("x", REAL_TYPE, pub, None)]))
        self.table.add(tsub)
        comps = []
        for name, (typ, shape) in TT.items():
            if typ == "tsub":
                dtype = tsub
            else:
                dtype = scalar_type(typ)
                if shape:
                    dtype = ArrayType(dtype, list(shape))
            comps.append((name, dtype, pub, None))
        ttype = DataTypeSymbol("t", StructureType.create(comps))
        self.table.add(ttype)
        for name in STRUCTS:
            self._add(DataSymbol(name, ttype))
        for name, shape in STRUCT_ARRAYS.items():
            self._add(DataSymbol(name, ArrayType(ttype, list(shape))))
        self._add(DataSymbol("c02_res", REAL_TYPE))

    def _add(self, sym):
        self.table.add(sym)
        self.syms[sym.name] = sym

    def datatype(self, ty, prec):
        from psyclone.psyir.symbols import CHARACTER_TYPE, ScalarType
        intr = {"int": ScalarType.Intrinsic.INTEGER,
                "real": ScalarType.Intrinsic.REAL,
                "bool": ScalarType.Intrinsic.BOOLEAN}
        if ty == "char":
            return CHARACTER_TYPE
        if prec == "undef":
            pre = ScalarType.Precision.UNDEFINED
        elif prec == "single":
            pre = ScalarType.Precision.SINGLE
        elif prec == "double":
            pre = ScalarType.Precision.DOUBLE
        elif isinstance(prec, int):
            pre = prec
        else:
            pre = self.syms[prec]
        return ScalarType(intr[ty], pre)

    def _members(self, members):
        out = []
        for name, idx in members:
            if idx:
                out.append((name, [self.build(i) for i in idx]))
            else:
                out.append(name)
        return out

    def build(self, spec):
        from psyclone.psyir.nodes import (
            ArrayOfStructuresReference, ArrayReference, BinaryOperation,
            IntrinsicCall, Literal, Reference, StructureReference,
            UnaryOperation)
        kind = spec[0]
        if kind == "lit":
            return Literal(spec[2], self.datatype(spec[1], spec[3]))
        if kind == "ref":
            return Reference(self.syms[spec[1]])
        if kind == "arr":
            return ArrayReference.create(self.syms[spec[1]],
                                         [self.build(i) for i in spec[2]])
        if kind == "sref":
            return StructureReference.create(self.syms[spec[1]],
                                             self._members(spec[2]))
        if kind == "asref":
            return ArrayOfStructuresReference.create(
                self.syms[spec[1]], [self.build(i) for i in spec[2]],
                self._members(spec[3]))
        if kind == "un":
            return UnaryOperation.create(
                UnaryOperation.Operator[spec[1]], self.build(spec[2]))
        if kind == "bin":
            return BinaryOperation.create(
                BinaryOperation.Operator[spec[1]], self.build(spec[2]),
                self.build(spec[3]))
        if kind == "call":
            args = [self.build(a) for a in spec[2]]
            if spec[3] is not None:
                args.append(("kind", Reference(self.syms[spec[3]])))
            return IntrinsicCall.create(IntrinsicCall.Intrinsic[spec[1]],
                                        args)
        raise ValueError(f"bad spec {spec!r}")

    def rhs_of_assignment(self, spec):
        """The tree as the right-hand side of an assignment (the writer
        decides some things from the parent node)."""
        from psyclone.psyir.nodes import Assignment, Reference
        asg = Assignment.create(Reference(self.syms["c02_res"]),
                                self.build(spec))
        return asg.rhs


# --------------------------------------------------------------------------
# what a faithful re-read of a faithful text looks like
# --------------------------------------------------------------------------
def canon_real(text):
    """Canonical text of a real literal value: '<digits>e<exponent>' with
    an integer mantissa without trailing zeros ('1.50' -> '15e-1').  Real
    literals are compared by value and precision, not by spelling: a
    correct writer may have to re-spell a value to express its type
    ('1' -> '1.0', '0.1' DOUBLE -> '0.1d0')."""
    text = text.lower()
    sign = ""
    if text[0] in "+-":
        sign, text = text[0], text[1:]
    mant, _, exp = text.partition("e")
    exp = int(exp) if exp else 0
    whole, _, frac = mant.partition(".")
    digits = (whole + frac).lstrip("0")
    exp -= len(frac)
    if not digits:
        return "0e0"
    stripped = digits.rstrip("0")
    exp += len(digits) - len(stripped)
    return f"{sign}{stripped}e{exp}"


def expected_reread(spec):
    """The Fortran frontend cannot produce (a) signed literals - '-1' is
    read as MINUS applied to '1' - and (b) does not distinguish
    SINGLE from UNDEFINED precision for reals; (c) real literal values are
    compared in the canonical spelling of canon_real.  Everything else must
    come back unchanged."""
    def fn(node):
        if node[0] != "lit":
            return node
        _, ty, text, prec = node
        if ty == "real" and prec == "single":
            prec = "undef"
        oper = None
        if ty in ("int", "real") and text[0] in "+-":
            oper = "MINUS" if text[0] == "-" else "PLUS"
            text = text[1:]
        if ty == "real":
            text = canon_real(text)
        lit = ["lit", ty, text, prec]
        return ["un", oper, lit] if oper else lit
    return transform(spec, fn)


# --------------------------------------------------------------------------
# semantic features of known defect shapes (used by classifiers and by the
# 'clean' generator mode)
# --------------------------------------------------------------------------
def is_signed_lit(node):
    return node[0] == "lit" and node[1] in ("int", "real") and \
        node[2][0] in "+-"


def feat_pow_left_pow(spec):
    """POW whose left operand is itself a POW."""
    return any(n[0] == "bin" and n[1] == "POW" and n[2][0] == "bin" and
               n[2][1] == "POW" for n, _, _ in walk(spec))


def _unary_left_nodes(spec):
    """Unary +/- nodes that are the LEFT operand of * / ** (unary minus
    directly under ** is bracketed by the writer and is not included)."""
    for node, parent, pos in walk(spec):
        if node[0] == "un" and node[1] in UNARY_NUM and parent is not None \
                and parent[0] == "bin" and pos == 0 and \
                parent[1] in ("MUL", "DIV", "POW") and \
                not (node[1] == "MINUS" and parent[1] == "POW"):
            yield node


def feat_unary_left_of_tighter(spec):
    return any(True for _ in _unary_left_nodes(spec))


def feat_plus_term_left_of_pow(spec):
    """(+(x*y))**z, (+(x/y))**z, (+(x**y))**z: here the unbracketed unary
    plus also changes the value, not only the structure."""
    return any(n[0] == "bin" and n[1] == "POW" and n[2][0] == "un" and
               n[2][1] == "PLUS" and n[2][2][0] == "bin" and
               n[2][2][1] in ("MUL", "DIV", "POW") for n, _, _ in walk(spec))


def feat_unary_leftmost_in_operand(spec):
    """A unary +/- is the left-most leaf of a chain of * / ** operations
    (following left operands) and that chain is the right operand of an
    arithmetic binary operator or the operand of a unary +/-."""
    def leftmost_unary(node):
        # node is the top of a chain candidate
        while node[0] == "bin" and node[1] in ("MUL", "DIV", "POW"):
            left = node[2]
            if left[0] == "un" and left[1] in UNARY_NUM and \
                    not (left[1] == "MINUS" and node[1] == "POW"):
                return True
            node = left
        return False
    for node, _, _ in walk(spec):
        if node[0] == "bin" and node[1] in ("ADD", "SUB", "MUL", "DIV"):
            if leftmost_unary(node[3]):
                return True
        if node[0] == "un" and node[1] in UNARY_NUM:
            if leftmost_unary(node[2]):
                return True
    return False


def feat_signed_literal_operand(spec):
    """A signed numeric literal is the operand of a unary +/-, the right
    operand of an arithmetic operator or the left operand of * / **."""
    for node, parent, pos in walk(spec):
        if not is_signed_lit(node) or parent is None:
            continue
        if parent[0] == "un" and parent[1] in UNARY_NUM:
            return True
        if parent[0] == "bin" and parent[1] in ARITH:
            if pos == 1 or parent[1] in ("MUL", "DIV", "POW"):
                return True
    return False


def feat_double_without_exponent(spec):
    return any(n[0] == "lit" and n[1] == "real" and n[3] == "double" and
               "e" not in n[2].lower() for n, _, _ in walk(spec))


def feat_real_without_point(spec):
    return any(n[0] == "lit" and n[1] == "real" and "." not in n[2] and
               "e" not in n[2].lower() for n, _, _ in walk(spec))


FEATURES = {
    "pow_left_pow": feat_pow_left_pow,
    "unary_left_of_tighter": feat_unary_left_of_tighter,
    "unary_leftmost_in_operand": feat_unary_leftmost_in_operand,
    "signed_literal_operand": feat_signed_literal_operand,
    "double_without_exponent": feat_double_without_exponent,
    "real_without_point": feat_real_without_point,
}


def sanitize(spec):
    """Rewrite every known-defect shape into a harmless neighbour so that
    the remaining structure is tested with full power."""
    def fn(node):
        if node[0] == "lit" and node[1] == "real":
            text = node[2]
            if "." not in text and "e" not in text.lower():
                text += ".0"
            if node[3] == "double" and "e" not in text.lower():
                text += "e0"
            return ["lit", "real", text, node[3]]
        if node[0] == "un" and node[1] in UNARY_NUM and \
                is_signed_lit(node[2]):
            return ["un", node[1], _strip(node[2])]
        if node[0] == "bin" and node[1] in ARITH:
            oper, lhs, rhs = node[1], node[2], node[3]
            if is_signed_lit(rhs):
                rhs = _strip(rhs)
            if oper in ("MUL", "DIV", "POW"):
                while True:
                    if is_signed_lit(lhs):
                        lhs = _strip(lhs)
                    elif lhs[0] == "un" and lhs[1] in UNARY_NUM and \
                            not (lhs[1] == "MINUS" and oper == "POW"):
                        lhs = lhs[2]
                    else:
                        break
            if oper == "POW" and lhs[0] == "bin" and lhs[1] == "POW":
                lhs = ["bin", "MUL", lhs[2], lhs[3]]
                # the new MUL may itself start with a unary/signed literal
                return fn(["bin", oper, fn(lhs), rhs])
            return ["bin", oper, lhs, rhs]
        return node

    def _strip(lit):
        return ["lit", lit[1], lit[2][1:], lit[3]]
    out = spec
    for _ in range(6):
        new = transform(out, fn)
        if new == out:
            break
        out = new
    return out


# --------------------------------------------------------------------------
# exhaustive families over a reduced leaf alphabet
# --------------------------------------------------------------------------
# Shapes use the placeholder leaves "N" (numeric) and "L" (logical); leaves
# are then named by in-order position (i1, i2, ... / l1, l2, ...) so that
# operand order is observable by the value oracle.
def _full_num(dep, memo):
    if dep in memo:
        return memo[dep]
    if dep == 0:
        out = ["N"]
    else:
        sub = _full_num(dep - 1, memo)
        out = ["N"]
        for oper in UNARY_NUM:
            out.extend(("un", oper, x) for x in sub)
        for oper in ARITH:
            out.extend(("bin", oper, x, y) for x in sub for y in sub)
    memo[dep] = out
    return out


def _full_log(dep, memo, nmemo):
    if dep in memo:
        return memo[dep]
    if dep == 0:
        out = ["L"]
    else:
        sub = _full_log(dep - 1, memo, nmemo)
        nsub = _full_num(dep - 1, nmemo)
        out = ["L"]
        out.extend(("un", "NOT", x) for x in sub)
        for oper in LOGIC:
            out.extend(("bin", oper, x, y) for x in sub for y in sub)
        for oper in REL:
            out.extend(("bin", oper, x, y) for x in nsub for y in nsub)
    memo[dep] = out
    return out


def _spine_num(dep, memo):
    if dep in memo:
        return memo[dep]
    if dep == 0:
        out = ["N"]
    else:
        sub = _spine_num(dep - 1, memo)
        out = ["N"]
        for oper in UNARY_NUM:
            out.extend(("un", oper, x) for x in sub)
        for oper in ARITH:
            out.extend(("bin", oper, x, "N") for x in sub)
            out.extend(("bin", oper, "N", x) for x in sub if x != "N")
    memo[dep] = out
    return out


def _spine_log(dep, memo, nmemo):
    if dep in memo:
        return memo[dep]
    if dep == 0:
        out = ["L"]
    else:
        sub = _spine_log(dep - 1, memo, nmemo)
        nsub = _spine_num(dep - 1, nmemo)
        out = ["L"]
        out.extend(("un", "NOT", x) for x in sub)
        for oper in LOGIC:
            out.extend(("bin", oper, x, "L") for x in sub)
            out.extend(("bin", oper, "L", x) for x in sub if x != "L")
        for oper in REL:
            out.extend(("bin", oper, x, "N") for x in nsub)
            out.extend(("bin", oper, "N", x) for x in nsub if x != "N")
    memo[dep] = out
    return out


def name_leaves(shape):
    """Shape -> spec with leaves named by in-order position."""
    counter = {"N": 0, "L": 0}

    def rec(node):
        if node == "N":
            counter["N"] += 1
            return ["ref", f"i{counter['N']}"]
        if node == "L":
            counter["L"] += 1
            return ["ref", f"l{counter['L']}"]
        if node[0] == "un":
            return ["un", node[1], rec(node[2])]
        return ["bin", node[1], rec(node[2]), rec(node[3])]
    return rec(shape)


def family(name):
    """List of shapes of an exhaustive family.

    full_num_D / full_log_D : every tree of operator depth <= D
    spine_num_D / spine_log_D : every tree of operator depth <= D in which
        at most one operand of each binary operator is not a leaf."""
    kind, typ, dep = name.split("_")
    dep = int(dep)
    if kind == "full":
        if typ == "num":
            return _full_num(dep, {})
        return _full_log(dep, {}, {})
    if typ == "num":
        return _spine_num(dep, {})
    return _spine_log(dep, {}, {})


# --------------------------------------------------------------------------
# Hypothesis strategies
# --------------------------------------------------------------------------
INT4_LITS = ["0", "1", "2", "3", "7", "10", "-1", "-2", "+1", "-3"]
INT8_LITS = ["1", "2", "-2", "5"]
R4_LITS = ["1.0", "0.5", "2.", "1.5e0", "25e-2", "4.0E0", "-1.5", "+2.0",
           "-0.5", "0.25", "1e1", "3", "0.1"]
R8_LITS = ["1.0", "0.5", "2.5e0", "1.5E1", "-2.0e0", "-1.5", "0.1e0", "0.1",
           "2", "4.e0", "+0.5e0"]
CHAR_LITS = ["ab", "a'b", 'a"b', "", "b ", "abc"]
STRICT_TYPES = [("i", 4), ("r", 4), ("r", 8), ("i", 8)]


class _Gen:
    """Recursive generator driven by a Hypothesis `draw`."""

    def __init__(self, draw):
        self.draw = draw

    def pick(self, seq):
        return seq[self.draw(st.integers(0, len(seq) - 1))]

    def chance(self, num, den):
        """True with probability num/den (shrinks towards False)."""
        return self.draw(st.integers(0, den - 1)) >= den - num

    # ---- leaves ---------------------------------------------------------
    def index(self, bound, dep):
        sel = self.draw(st.integers(0, 9))
        if sel <= 4 or dep <= 0:
            return ["lit", "int", str(1 + sel % bound), "undef"]
        if sel <= 7:
            return ["ref", self.pick(["k1", "k2"])]
        return self.num(min(dep - 1, 2), False, ("i", 4))

    def numleaf(self, want, dep, refs_only=False):
        typ = want or self.pick([("i", 4), ("r", 4), ("i", 4), ("r", 4),
                                 ("r", 8), ("i", 8)])
        sel = self.draw(st.integers(0, 9))
        if typ == ("i", 4):
            if sel <= 3 or (refs_only and sel <= 6):
                return ["ref", self.pick(["i1", "i2", "i3", "k1", "k2"])]
            if sel <= 6:
                return ["lit", "int", self.pick(INT4_LITS),
                        self.pick(["undef", "undef", "ik"])]
            if sel <= 8:
                return ["arr", "ia", [self.index(5, dep)]]
            return ["sref", "s", [["i", []]]]
        if typ == ("i", 8):
            if sel <= 4 or refs_only:
                return ["ref", "j1"]
            return ["lit", "int", self.pick(INT8_LITS), 8]
        if typ == ("r", 4):
            if sel <= 2 or (refs_only and sel <= 5):
                return ["ref", self.pick(["r1", "r2", "r3"])]
            if sel <= 5:
                return ["lit", "real", self.pick(R4_LITS),
                        self.pick(["undef", "undef", "single", 4])]
            if sel == 6:
                return ["arr", "ra", [self.index(4, dep), self.index(3, dep)]]
            if sel == 7:
                return self.pick([
                    ["sref", "s", [["x", []]]],
                    ["sref", "s", [["sub", []], ["x", []]]]])
            if sel == 8:
                return ["sref", "s", [["v", [self.index(3, dep)]]]]
            if self.chance(1, 2):
                return ["asref", "sa", [self.index(2, dep)], [["x", []]]]
            return ["asref", "sa", [self.index(2, dep)],
                    [["v", [self.index(3, dep)]]]]
        # ("r", 8)
        if sel <= 3 or refs_only:
            return ["ref", self.pick(["d1", "w1"])]
        return ["lit", "real", self.pick(R8_LITS),
                self.pick(["double", "double", 8, "wp"])]

    def logleaf(self, dep):
        sel = self.draw(st.integers(0, 9))
        if sel <= 3:
            return ["ref", self.pick(["l1", "l2"])]
        if sel <= 6:
            return ["lit", "bool", self.pick(["true", "false"]),
                    self.pick(["undef", "undef", 4, "wp"])]
        if sel <= 8:
            return ["arr", "la", [self.index(3, dep)]]
        return ["sref", "s", [["f", []]]]

    def exponent(self, dep, force):
        sel = self.draw(st.integers(0, 9))
        if dep > 0 and (force or sel >= 8):
            return self.num(dep, force, ("i", 4))
        if sel <= 4:
            return ["lit", "int", self.pick(["2", "0", "1", "3", "-1"]),
                    "undef"]
        return ["ref", self.pick(["k1", "k2"])]

    # ---- numeric layer --------------------------------------------------
    def num(self, dep, force, want=None):
        if dep <= 0 or (not force and self.chance(1, 3)):
            return self.numleaf(want, dep)
        sel = self.draw(st.integers(0, 9))
        if sel <= 5:
            oper = self.pick(ARITH)
            left_forced = self.draw(st.booleans())
            if oper == "POW":
                base = self.num(dep - 1, force and left_forced, want)
                expo = self.exponent(dep - 1, force and not left_forced)
                return ["bin", "POW", base, expo]
            return ["bin", oper,
                    self.num(dep - 1, force and left_forced, want),
                    self.num(dep - 1, force and not left_forced, want)]
        if sel <= 7:
            return ["un", self.pick(UNARY_NUM),
                    self.num(dep - 1, force, want)]
        return self.intrinsic(dep, force, want)

    def intrinsic(self, dep, force, want):
        names = ["ABS", "MAX", "MIN", "MOD", "SIGN"]
        if want in (None, ("r", 4), ("r", 8)):
            names.append("REAL")
        if want in (None, ("i", 4)):
            names.append("INT")
        name = self.pick(names)
        if name == "ABS":
            return ["call", "ABS", [self.num(dep - 1, force, want)], None]
        if name == "REAL":
            kindarg = "wp" if want == ("r", 8) else None
            if want is None and self.chance(1, 3):
                kindarg = "wp"
            return ["call", "REAL", [self.numleaf(None, dep - 1, True)],
                    kindarg]
        if name == "INT":
            return ["call", "INT", [self.num(dep - 1, force, None)], None]
        typ = want or self.pick(STRICT_TYPES)
        nargs = 2
        if name in ("MAX", "MIN") and self.chance(1, 4):
            nargs = 3
        which = self.draw(st.integers(0, nargs - 1))
        args = [self.num(dep - 1, force and i == which, typ)
                for i in range(nargs)]
        return ["call", name, args, None]

    # ---- relational / logical layers -----------------------------------
    def rel(self, dep, force):
        oper = self.pick(REL)
        if self.chance(1, 12):
            def chr_operand():
                if self.chance(1, 3):
                    return ["ref", "c1"]
                return ["lit", "char", self.pick(CHAR_LITS), "undef"]
            return ["bin", oper, chr_operand(), chr_operand()]
        left_forced = self.draw(st.booleans())
        return ["bin", oper, self.num(dep - 1, force and left_forced),
                self.num(dep - 1, force and not left_forced)]

    def log(self, dep, force):
        if dep <= 0 or (not force and self.chance(1, 3)):
            return self.logleaf(dep)
        sel = self.draw(st.integers(0, 9))
        if sel <= 3:
            return self.rel(dep, force)
        if sel <= 5:
            return ["un", "NOT", self.log(dep - 1, force)]
        oper = self.pick(LOGIC)
        left_forced = self.draw(st.booleans())
        return ["bin", oper, self.log(dep - 1, force and left_forced),
                self.log(dep - 1, force and not left_forced)]


@st.composite
def trees(draw, maxdepth):
    """(spec, clean) - a well-typed expression of depth 1..maxdepth (one
    root-to-leaf path is forced to reach the drawn depth).  With clean=True
    the known-defect shapes have been rewritten (sanitize)."""
    gen = _Gen(draw)
    dep = draw(st.integers(1, maxdepth))
    root = draw(st.integers(0, 4))
    if root <= 2:
        spec = gen.num(dep, True)
    else:
        spec = gen.log(dep, True)
    clean = draw(st.booleans())
    if clean:
        spec = sanitize(spec)
    return fix(spec), clean
