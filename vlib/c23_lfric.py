"""Helpers for C23 (LFRic shared-DoF increments are only parallelised over
colours).

* an independent reader of LFRic kernel metadata (regex over the
  ``arg_type(...)`` entries of the kernel source) -- the oracle never asks
  PSyclone which access mode / function space an argument has;
* a generator of algorithm + kernel-metadata files (the spec is the
  metadata record);
* ``Session``: one LFRic invoke schedule plus a deterministic, JSON-able
  step language for the transformations of the property, the structural
  oracle on the tree and the textual oracle on the generated PSy layer.
"""
import contextlib
import io
import json
import os
import re
import shutil
import tempfile

from vlib.runner import HarnessError

REPO = os.environ.get("VERIF_REPO", "/repo")
BASE = os.path.join(REPO, "src", "psyclone", "tests", "test_files",
                    "dynamo0p3")
API = "dynamo0.3"

# Documented classification (doc/user_guide/dynamo0p3.rst, section
# "Supported Function Spaces": Discontinuous = W2broken, W2V, W2Vtrace, W3,
# Wtheta, ANY_DISCONTINUOUS_SPACE_<n>; everything else is continuous or,
# for ANY_SPACE_<n> / ANY_W2, unknown and "treated as continuous").
DISCONTINUOUS = {"w3", "wtheta", "w2v", "w2vtrace", "w2broken"}
CONTINUOUS = ["w0", "w1", "w2", "w2h", "w2trace", "w2htrace"]
UNKNOWN_SPACES = ["any_space_1", "any_space_2", "any_space_3", "any_w2"]
DISCONT_LIST = ["w3", "wtheta", "w2v", "w2broken", "w2vtrace",
                "any_discontinuous_space_1", "any_discontinuous_space_2"]


def is_discontinuous(space):
    space = space.lower()
    return (space in DISCONTINUOUS or
            re.fullmatch(r"any_discontinuous_space_\d+", space) is not None)


# --------------------------------------------------------------------------
# independent kernel-metadata reader
# --------------------------------------------------------------------------
def _strip_and_join(text):
    """Lower-case, remove comments, join continuation lines."""
    out = []
    cur = ""
    for raw in text.splitlines():
        line = raw.split("!", 1)[0].rstrip()
        if not line.strip():
            continue
        stripped = line.strip()
        if stripped.startswith("&"):
            stripped = stripped[1:]
        if stripped.endswith("&"):
            cur += stripped[:-1] + " "
            continue
        cur += stripped
        out.append(cur.lower())
        cur = ""
    if cur:
        out.append(cur.lower())
    return out


def _split_top(text):
    """Split at top-level commas."""
    parts, depth, cur = [], 0, ""
    for ch in text:
        if ch == "(":
            depth += 1
        elif ch == ")":
            depth -= 1
        if ch == "," and depth == 0:
            parts.append(cur.strip())
            cur = ""
        else:
            cur += ch
    if cur.strip():
        parts.append(cur.strip())
    return parts


def _arg_types(stmt):
    """All balanced ``arg_type( ... )`` entries of a joined statement."""
    res = []
    for mat in re.finditer(r"\barg_type\s*\(", stmt):
        depth, idx = 1, mat.end()
        while idx < len(stmt) and depth:
            if stmt[idx] == "(":
                depth += 1
            elif stmt[idx] == ")":
                depth -= 1
            idx += 1
        if depth:
            continue       # declaration "type(arg_type) ..." or unbalanced
        res.append(stmt[mat.end():idx - 1])
    return res


ACCESSES = ("gh_read", "gh_write", "gh_inc", "gh_readinc", "gh_readwrite",
            "gh_sum")


def parse_kernel_metadata(text):
    """{type name: {"code": procedure or None, "args": [...]}} for every
    ``type, extends(kernel_type)`` of a kernel source file."""
    kernels = {}
    cur = None
    for stmt in _strip_and_join(text):
        mat = re.match(r"type\s*,.*extends\s*\(\s*kernel_type\s*\).*::\s*"
                       r"(\w+)", stmt)
        if mat:
            cur = {"code": None, "args": [], "operates_on": None}
            kernels[mat.group(1)] = cur
            continue
        if cur is None:
            continue
        if re.match(r"end\s*type\b", stmt):
            cur = None
            continue
        if "meta_args" in stmt:
            for ent in _arg_types(stmt):
                items = _split_top(ent)
                acc = [i for i, it in enumerate(items) if it in ACCESSES]
                if not acc:
                    raise HarnessError(
                        f"cannot read access of arg_type({ent})")
                pos = acc[0]
                kind = re.sub(r"\s+", "", items[0])
                space = items[pos + 1] if pos + 1 < len(items) else None
                if kind.startswith("gh_scalar"):
                    space = None
                cur["args"].append({"kind": kind, "access": items[pos],
                                    "space": space})
            continue
        mat = re.match(r"integer.*::\s*operates_on\s*=\s*(\w+)", stmt)
        if mat:
            cur["operates_on"] = mat.group(1)
            continue
        mat = re.match(r"procedure\b.*::\s*(?:code\s*=>\s*)?(\w+)", stmt)
        if mat and cur["code"] is None:
            cur["code"] = mat.group(1)
    return kernels


def shared_incs(record):
    """Arguments of one kernel record that increment shared DoFs: a field
    (or field vector) with GH_INC / GH_READINC access on a function space
    that is not documented to be discontinuous."""
    res = []
    for arg in record["args"]:
        if not arg["kind"].startswith("gh_field"):
            continue
        if arg["access"] not in ("gh_inc", "gh_readinc"):
            continue
        if arg["space"] is None or is_discontinuous(arg["space"]):
            continue
        res.append({"access": arg["access"], "space": arg["space"]})
    return res


_META_CACHE = {}


def kernel_record(directory, module_name, proc_name):
    """Metadata record of the kernel implemented by `proc_name` in
    `module_name` (file <module_name>.[fF]90 in `directory`)."""
    key = (directory, module_name)
    if directory != BASE:
        _META_CACHE.pop(key, None)     # scratch directories are not cached
    if key not in _META_CACHE:
        found = None
        for ext in (".F90", ".f90"):
            path = os.path.join(directory, module_name + ext)
            if os.path.exists(path):
                found = path
                break
        if found is None:
            raise HarnessError(f"no kernel source for module {module_name} "
                               f"in {directory}")
        with open(found, errors="replace") as fin:
            _META_CACHE[key] = parse_kernel_metadata(fin.read())
    kernels = _META_CACHE[key]
    match = [rec for rec in kernels.values()
             if rec["code"] == proc_name.lower()]
    if len(match) == 1:
        return match[0]
    if not match and len(kernels) == 1:
        return next(iter(kernels.values()))
    raise HarnessError(f"cannot identify the metadata of kernel "
                       f"{proc_name} in module {module_name}: "
                       f"{sorted(kernels)}")


# --------------------------------------------------------------------------
# generated algorithm + kernel metadata
# --------------------------------------------------------------------------
def kernel_source(name, args):
    """Kernel module text for a spec: args = [[access, space], ...]."""
    lines = [f"module {name}_mod",
             "  use argument_mod", "  use fs_continuity_mod",
             "  use kernel_mod", "  use constants_mod",
             "  implicit none",
             f"  type, extends(kernel_type) :: {name}_type",
             f"     type(arg_type), dimension({len(args)}) :: meta_args = (/ &"]
    for idx, (access, space) in enumerate(args):
        sep = ", &" if idx + 1 < len(args) else "  &"
        lines.append(f"          arg_type(gh_field, gh_real, {access}, "
                     f"{space}){sep}")
    lines += ["          /)",
              "     integer :: operates_on = cell_column",
              "   contains",
              f"     procedure, nopass :: code => {name}_code",
              f"  end type {name}_type",
              "contains",
              f"  subroutine {name}_code()",
              f"  end subroutine {name}_code",
              f"end module {name}_mod", ""]
    return "\n".join(lines)


def algorithm_source(invokes):
    """invokes = list of invokes, each a list of calls
    [global kernel id, [field index, ...]]."""
    nfields = 1 + max(f for calls in invokes for _, flds in calls
                      for f in flds)
    used = sorted({k for calls in invokes for k, _ in calls})
    lines = ["program c23_alg", "  use field_mod, only: field_type"]
    for k in used:
        lines.append(f"  use c23k{k}_mod, only: c23k{k}_type")
    lines.append("  implicit none")
    lines.append("  type(field_type) :: " +
                 ", ".join(f"f{i}" for i in range(nfields)))
    for calls in invokes:
        lines.append("  call invoke( &")
        for idx, (k, flds) in enumerate(calls):
            sep = ", &" if idx + 1 < len(calls) else "  &"
            args = ", ".join(f"f{i}" for i in flds)
            lines.append(f"       c23k{k}_type({args}){sep}")
        lines.append("       )")
    lines.append("end program c23_alg")
    return "\n".join(lines) + "\n"


def write_sources(dirname, kernels, invokes):
    """kernels: {global id: args}; returns the algorithm path."""
    for gid, args in kernels.items():
        with open(os.path.join(dirname, f"c23k{gid}_mod.f90"), "w") as fout:
            fout.write(kernel_source(f"c23k{gid}", args))
    alg = os.path.join(dirname, "c23_alg.f90")
    with open(alg, "w") as fout:
        fout.write(algorithm_source(invokes))
    return alg


def spec_records(spec, names=None):
    """The metadata records of a generated spec (the spec *is* the
    record). names: local kernel index -> global id used in the files."""
    recs = {}
    for k, args in enumerate(spec["kernels"]):
        gid = names[k] if names else k
        recs[f"c23k{gid}_code"] = {
            "code": f"c23k{gid}_code", "operates_on": "cell_column",
            "args": [{"kind": "gh_field", "access": acc, "space": spc}
                     for acc, spc in args]}
    return recs


class Library:
    """A set of generated invokes sharing one algorithm file, parsed once
    (parsing kernel metadata dominates the cost of a generated case).
    Every entry also has a stand-alone spec used for replay."""

    def __init__(self, specs):
        from psyclone.parse.algorithm import parse
        self.entries = []
        self.dir = None
        self.info = None
        if not specs:
            return
        reset_psyclone()
        self.dir = tempfile.mkdtemp(prefix="verif_c23_lib_")
        kernels, invokes = {}, []
        for spec in specs:
            why = valid_spec(spec)
            if why:
                raise HarnessError(f"invalid library spec ({why}): {spec}")
            names = []
            for args in spec["kernels"]:
                key = json.dumps(args)
                gid = next((g for g, a in kernels.items()
                            if json.dumps(a) == key), None)
                if gid is None:
                    gid = len(kernels)
                    kernels[gid] = args
                names.append(gid)
            invokes.append([[names[k], flds] for k, flds in spec["calls"]])
            self.entries.append({"spec": spec, "names": names,
                                 "index": len(invokes) - 1})
        alg = write_sources(self.dir, kernels, invokes)
        try:
            with contextlib.redirect_stdout(io.StringIO()):
                _, self.info = parse(alg, api=API)
        except Exception as err:
            self.close()
            raise HarnessError(f"generated library rejected by the "
                               f"parser: {err}") from err
        # cross-check the independent metadata reader against the specs
        for gid, args in kernels.items():
            rec = kernel_record(self.dir, f"c23k{gid}_mod", f"c23k{gid}_code")
            got = [[a["access"], a["space"]] for a in rec["args"]]
            if got != [list(a) for a in args]:
                raise HarnessError(f"metadata reader disagrees with spec: "
                                   f"{got} vs {args}")

    def close(self):
        if self.dir:
            shutil.rmtree(self.dir, ignore_errors=True)
            self.dir = None


def valid_spec(spec):
    """Re-validation of a (possibly shrunk or hand-written) spec against
    the documented metadata rules; returns a reason or None."""
    if not spec["kernels"] or not spec["calls"]:
        return "empty"
    for args in spec["kernels"]:
        if not args:
            return "kernel without arguments"
        writers = 0
        for access, space in args:
            disc = is_discontinuous(space)
            if access in ("gh_inc", "gh_readinc") and disc:
                return "inc on discontinuous space"
            if access == "gh_readwrite" and not disc:
                return "readwrite on continuous space"
            if access != "gh_read":
                writers += 1
        if not writers:
            return "kernel writes nothing"
    for k, flds in spec["calls"]:
        if not 0 <= k < len(spec["kernels"]):
            return "bad kernel index"
        if len(flds) != len(spec["kernels"][k]):
            return "argument count"
        if len(set(flds)) != len(flds):
            return "field passed twice to one kernel"
    return None


# --------------------------------------------------------------------------
# Session
# --------------------------------------------------------------------------
LOOP_STEPS = ("colour", "omp_pardo", "omp_do", "acc_loop", "redundant")
REGION_STEPS = ("omp_par", "acc_par", "acc_kernels")
ALL_STEPS = LOOP_STEPS + REGION_STEPS + ("fuse", "move")
PARALLEL_STEPS = ("omp_pardo", "omp_do", "acc_loop") + REGION_STEPS

# Directive classes (by name) whose child loop is executed worksharing-
# parallel.
WORKSHARE = ("OMPDoDirective", "OMPParallelDoDirective",
             "OMPTaskloopDirective", "OMPLoopDirective",
             "OMPTeamsDistributeParallelDoDirective", "ACCLoopDirective")
# A loop directly inside "!$acc kernels" without a loop directive is only
# parallelised if the *compiler* proves it safe; PSyclone asserts nothing.
# With STRICT_ACC_KERNELS such loops (and colours loops in a kernels
# region) are nevertheless treated as parallel (DESIGN wording).
DIRNAME = {"OMPDoDirective": "omp do",
           "OMPParallelDoDirective": "omp parallel do",
           "OMPTaskloopDirective": "omp taskloop",
           "OMPLoopDirective": "omp loop",
           "ACCLoopDirective": "acc loop",
           "ACCKernelsDirective": "acc kernels",
           "OMPParallelDirective": "omp parallel",
           "ACCParallelDirective": "acc parallel"}
STRICT_ACC_KERNELS = os.environ.get("C23_STRICT_ACC_KERNELS", "0") == "1"


def reset_psyclone():
    from psyclone.configuration import Config
    from psyclone.domain.lfric import LFRicConstants
    Config._instance = None
    LFRicConstants.HAS_BEEN_INITIALISED = False


class BuildError(Exception):
    """The source could not be turned into a schedule (generator/pool
    rejection, never a verdict)."""


class Session:
    """One invoke schedule + step interpreter + oracles."""

    def __init__(self, src, dm, info_cache=None, prebuilt=None):
        """`info_cache`: optional dict reused between sessions of one
        process (file name / spec -> parsed invoke info; parsing dominates
        the cost of a case). `prebuilt`: (Library, entry) for a generated
        source that is part of a library. Verdicts are always confirmed
        without either."""
        from psyclone.parse.algorithm import parse
        from psyclone.psyGen import PSyFactory, CodedKern
        reset_psyclone()
        self.src = src
        self.dm = bool(dm)
        self.tmpdir = None
        self.log = []            # [step, status] for every step
        self.ttypes = []         # type of the target loop of every step
        self.dead = False
        try:
            index = src.get("invoke", 0)
            names = None
            info = None
            alg = None
            if src["kind"] == "file":
                ckey = "file:" + src["file"]
                alg = os.path.join(BASE, src["file"])
                if not os.path.exists(alg):
                    raise BuildError(f"missing {alg}")
            else:
                why = valid_spec(src["spec"])
                if why:
                    raise BuildError("invalid spec: " + why)
                ckey = "spec:" + json.dumps(src["spec"], sort_keys=True)
                if prebuilt is not None:
                    lib, entry = prebuilt
                    if entry["spec"] != src["spec"]:
                        raise HarnessError("library entry / spec mismatch")
                    info, index, names = (lib.info, entry["index"],
                                          entry["names"])
            if info is None and info_cache is not None and \
                    ckey in info_cache:
                info = info_cache[ckey]
                if isinstance(info, BuildError):
                    raise info
            if info is None:
                if src["kind"] == "gen":
                    self.tmpdir = tempfile.mkdtemp(prefix="verif_c23_")
                    spec = src["spec"]
                    alg = write_sources(
                        self.tmpdir, dict(enumerate(spec["kernels"])),
                        [spec["calls"]])
                    # cross-check the independent metadata reader
                    for k, args in enumerate(spec["kernels"]):
                        rec = kernel_record(self.tmpdir, f"c23k{k}_mod",
                                            f"c23k{k}_code")
                        got = [[a["access"], a["space"]]
                               for a in rec["args"]]
                        if got != [list(a) for a in args]:
                            raise HarnessError(
                                f"metadata reader disagrees with spec: "
                                f"{got} vs {args}")
                try:
                    with contextlib.redirect_stdout(io.StringIO()):
                        _, info = parse(alg, api=API)
                except Exception as err:  # pylint: disable=broad-except
                    berr = BuildError(f"{type(err).__name__}: "
                                      f"{str(err)[:200]}")
                    if info_cache is not None:
                        info_cache[ckey] = berr
                    raise berr from err
                if info_cache is not None:
                    info_cache[ckey] = info
            try:
                with contextlib.redirect_stdout(io.StringIO()):
                    self.psy = PSyFactory(
                        API, distributed_memory=self.dm).create(info)
            except Exception as err:      # pylint: disable=broad-except
                raise BuildError(f"{type(err).__name__}: "
                                 f"{str(err)[:200]}") from err
            invokes = self.psy.invokes.invoke_list
            if not invokes:
                raise BuildError("no invoke")
            self.invoke = invokes[index % len(invokes)]
            self.schedule = self.invoke.schedule
            self.records = {}     # kernel procedure name -> my record
            if src["kind"] == "gen":
                self.records = spec_records(src["spec"], names)
            for kern in self.schedule.walk(CodedKern):
                if src["kind"] == "gen":
                    if kern.name.lower() not in self.records:
                        raise HarnessError(f"unknown generated kernel "
                                           f"{kern.name}")
                    continue
                rec = kernel_record(BASE, kern.module_name, kern.name)
                old = self.records.setdefault(kern.name.lower(), rec)
                if old is not rec:
                    raise BuildError("two kernels with one procedure name")
        except BaseException:
            self.close()
            raise

    def close(self):
        if self.tmpdir:
            shutil.rmtree(self.tmpdir, ignore_errors=True)
            self.tmpdir = None

    # ---- targets ------------------------------------------------------
    def loops(self):
        from psyclone.psyir.nodes import Loop
        return self.schedule.walk(Loop)

    def statements(self):
        """Nodes that can be the start of a region / moved: children of
        any Schedule that are not kernels."""
        from psyclone.psyir.nodes import Schedule, Node
        from psyclone.psyGen import Kern
        return [n for n in self.schedule.walk(Node)
                if n is not self.schedule and isinstance(n.parent, Schedule)
                and not isinstance(n, Kern)]

    def loop_needs_colour(self, loop):
        """Shared-DoF increment arguments (my records) of the kernels
        called from within `loop`."""
        from psyclone.psyGen import CodedKern
        res = []
        for kern in loop.walk(CodedKern):
            for inc in shared_incs(self.records[kern.name.lower()]):
                res.append(dict(inc, kernel=kern.name.lower()))
        return res

    # ---- steps --------------------------------------------------------
    def apply(self, step):
        """Apply one step; returns 'ok', 'refused:<why>' or 'crash:<type>'.
        Every choice is taken modulo the number of available targets."""
        # pylint: disable=import-outside-toplevel, too-many-locals
        from psyclone.errors import GenerationError, InternalError
        from psyclone.psyir.transformations import (
            TransformationError, ACCKernelsTrans)
        from psyclone import transformations as tr
        if self.dead:
            raise HarnessError("step applied to a dead session")
        kind = step["t"]
        status = None
        ttype = None        # loop type of the target loop before the step
        touched_incs = []
        try:
            if kind in LOOP_STEPS or kind == "fuse":
                loops = self.loops()
                if step.get("of") is not None:
                    # restrict the choice to loops of one type
                    # ("" = cells, "colour", "colours", "dof")
                    loops = [l for l in loops
                             if getattr(l, "loop_type", None) == step["of"]]
                if not loops:
                    status = "refused:notarget"
                else:
                    loop = loops[step["loop"] % len(loops)]
                    ttype = getattr(loop, "loop_type", None)
                    touched_incs = self.loop_needs_colour(loop)
                    if kind == "colour":
                        tr.Dynamo0p3ColourTrans().apply(loop)
                    elif kind == "omp_pardo":
                        tr.DynamoOMPParallelLoopTrans().apply(loop)
                    elif kind == "omp_do":
                        tr.Dynamo0p3OMPLoopTrans().apply(loop)
                    elif kind == "acc_loop":
                        opts = {}
                        if step.get("seq"):
                            opts["sequential"] = True
                        if step.get("noindep"):
                            opts["independent"] = False
                        tr.ACCLoopTrans().apply(loop, opts)
                    elif kind == "redundant":
                        opts = {}
                        if step.get("depth"):
                            opts["depth"] = int(step["depth"])
                        tr.Dynamo0p3RedundantComputationTrans().apply(
                            loop, opts)
                    else:
                        from psyclone.domain.lfric.transformations import \
                            LFRicLoopFuseTrans
                        sibs = loop.parent.children if loop.parent else []
                        pos = loop.position
                        if pos + 1 >= len(sibs):
                            status = "refused:notarget"
                        else:
                            opts = {}
                            if step.get("same_space"):
                                opts["same_space"] = True
                            LFRicLoopFuseTrans().apply(loop, sibs[pos + 1],
                                                       opts)
            elif kind in REGION_STEPS:
                stmts = self.statements()
                if not stmts:
                    status = "refused:notarget"
                else:
                    first = stmts[step["node"] % len(stmts)]
                    sibs = first.parent.children
                    num = 1 + step.get("len", 0) % (len(sibs) -
                                                    first.position)
                    nodes = sibs[first.position:first.position + num]
                    from psyclone.psyir.nodes import Loop
                    for node in nodes:
                        for loop in node.walk(Loop):
                            touched_incs += self.loop_needs_colour(loop)
                    if kind == "omp_par":
                        tr.OMPParallelTrans().apply(nodes)
                    elif kind == "acc_par":
                        tr.ACCParallelTrans().apply(nodes)
                    else:
                        ACCKernelsTrans().apply(nodes)
            elif kind == "move":
                stmts = self.statements()
                if len(stmts) < 2:
                    status = "refused:notarget"
                else:
                    node = stmts[step["node"] % len(stmts)]
                    sibs = node.parent.children
                    target = sibs[step.get("to", 0) % len(sibs)]
                    pos = "after" if step.get("after") else "before"
                    tr.MoveTrans().apply(node, target, {"position": pos})
            else:
                raise HarnessError(f"unknown step {step}")
            if status is None:
                status = "ok"
        except TransformationError:
            status = "refused:TransformationError"
        except (GenerationError, InternalError) as err:
            # e.g. MoveTrans documents GenerationError for an invalid
            # location: an explicit refusal as well
            status = "refused:" + type(err).__name__
        except HarnessError:
            raise
        except Exception as err:          # pylint: disable=broad-except
            # not this property's business, but the tree can no longer be
            # trusted: the history ends here
            status = "crash:" + type(err).__name__
            self.dead = True
        self.log.append([step, status])
        self.ttypes.append(ttype)
        return status, touched_incs

    # ---- oracle on the tree -------------------------------------------
    def tree_violations(self):
        """List of violation dicts found on the current schedule."""
        # pylint: disable=import-outside-toplevel
        from psyclone.psyir.nodes import (
            Loop, Directive, OMPParallelDirective, ACCParallelDirective,
            ACCKernelsDirective, ACCLoopDirective, Schedule)
        def workshare(loop):
            """Normalised name of the worksharing directive applied to
            `loop`, or None."""
            parent = loop.parent
            direc = parent.parent if isinstance(parent, Schedule) else None
            if not isinstance(direc, Directive):
                return None
            names = [c.__name__ for c in type(direc).__mro__]
            if any(n in WORKSHARE for n in names):
                if isinstance(direc, ACCLoopDirective) and direc.sequential:
                    return None            # "!$acc loop seq"
                cname = type(direc).__name__
                return DIRNAME.get(cname, cname)
            if isinstance(direc, ACCKernelsDirective) and STRICT_ACC_KERNELS:
                return "acc kernels"
            return None

        res = []
        for loop in self.loops():
            ltype = getattr(loop, "loop_type", None)
            if ltype == "colours":
                regions = []
                node = loop.parent
                while node is not None:
                    if isinstance(node, (OMPParallelDirective,
                                         ACCParallelDirective)):
                        regions.append(type(node).__name__)
                    elif (isinstance(node, ACCKernelsDirective) and
                          STRICT_ACC_KERNELS):
                        regions.append(type(node).__name__)
                    node = node.parent
                direct = workshare(loop)
                if regions:
                    # innermost region (as the text oracle reports it)
                    res.append({"kind": "colours_in_region",
                                "directive": DIRNAME.get(regions[0],
                                                         regions[0]),
                                "incs": self.loop_needs_colour(loop)})
                elif direct and direct != "acc kernels":
                    res.append({"kind": "colours_in_region",
                                "directive": direct,
                                "incs": self.loop_needs_colour(loop)})
                continue
            if ltype not in ("", "colour"):
                continue            # dofs, null
            dname = workshare(loop)
            if dname is None:
                continue
            incs = self.loop_needs_colour(loop)
            if not incs:
                continue
            # the colours loop is separated from the colour loop by the
            # directive itself: nearest enclosing loop
            anc = loop.ancestor(Loop)
            coloured = (ltype == "colour" and anc is not None and
                        getattr(anc, "loop_type", None) == "colours")
            if not coloured:
                res.append({"kind": "uncoloured_parallel",
                            "directive": dname, "incs": incs})
        return res

    def coloured_parallel_loops(self):
        """Number of loops over the cells of one colour that carry a
        worksharing directive and whose kernels increment shared DoFs (the
        legitimate end state; coverage indicator only)."""
        # pylint: disable=import-outside-toplevel
        from psyclone.psyir.nodes import Directive, Schedule
        num = 0
        for loop in self.loops():
            if getattr(loop, "loop_type", None) != "colour":
                continue
            parent = loop.parent
            direc = parent.parent if isinstance(parent, Schedule) else None
            if isinstance(direc, Directive) and any(
                    c.__name__ in WORKSHARE for c in type(direc).__mro__) \
                    and self.loop_needs_colour(loop):
                num += 1
        return num

    # ---- code generation ----------------------------------------------
    def gen(self):
        """('ok', text) | ('refused', msg) | ('crash', msg)"""
        # pylint: disable=import-outside-toplevel
        from psyclone.errors import GenerationError, PSycloneError
        try:
            with contextlib.redirect_stdout(io.StringIO()):
                return "ok", str(self.psy.gen)
        except GenerationError as err:
            return "refused", str(err)
        except PSycloneError as err:
            cause = err.__cause__
            if isinstance(cause, GenerationError) or \
                    "Generation Error" in str(err):
                return "refused", str(err)
            return "crash", f"{type(err).__name__}: {err}"
        except Exception as err:          # pylint: disable=broad-except
            return "crash", f"{type(err).__name__}: {err}"

    def text_violations(self, text):
        return text_violations(text, self.invoke.name, self.records)


DIRECTIVE = re.compile(r"^\s*!\$(omp|acc)\s+(.*?)\s*$", re.I)
DO_LINE = re.compile(r"^\s*do\s+(\w+)\s*=\s*(.*)$", re.I)
END_DO = re.compile(r"^\s*end\s*do\b", re.I)
CALL = re.compile(r"^\s*call\s+(\w+)\s*\(", re.I)


def text_violations(text, invoke_name, records):
    """Re-derive both facts from the generated Fortran of one invoke
    subroutine. Returns a list of violation dicts (same kinds as the tree
    oracle). `records`: kernel procedure name -> metadata record."""
    lines = text.splitlines()
    start = end = None
    for idx, line in enumerate(lines):
        if start is None:
            if re.match(rf"^\s*subroutine\s+{re.escape(invoke_name)}\b",
                        line, re.I):
                start = idx
        elif re.match(r"^\s*end\s+subroutine\b", line, re.I):
            end = idx
            break
    if start is None or end is None:
        raise HarnessError(f"subroutine {invoke_name} not found in the "
                           f"generated code")
    res = []
    stack = []        # dicts: {"t": "do"|"region", ...}
    pending = None    # worksharing directive immediately above
    ndo = 0
    for line in lines[start + 1:end]:
        mat = DIRECTIVE.match(line)
        if mat:
            fam = mat.group(1).lower()
            words = mat.group(2).lower()
            # a worksharing directive only applies to a DO statement that
            # follows it immediately
            pending = None
            if fam == "omp":
                if re.match(r"end\s+parallel\s+do\b", words) or \
                        re.match(r"end\s+(do|taskloop)\b", words):
                    pass
                elif re.match(r"end\s+parallel\b", words):
                    _pop_region(stack, "omp parallel")
                elif re.match(r"parallel\s+do\b", words):
                    pending = {"dir": "omp parallel do", "seq": False}
                elif re.match(r"parallel\b", words):
                    stack.append({"t": "region", "dir": "omp parallel"})
                elif re.match(r"(do|taskloop|loop)\b", words):
                    pending = {"dir": "omp " + words.split()[0],
                               "seq": False}
            else:
                if re.match(r"end\s+parallel\b", words):
                    _pop_region(stack, "acc parallel")
                elif re.match(r"end\s+kernels\b", words):
                    _pop_region(stack, "acc kernels")
                elif re.match(r"parallel\b", words):
                    stack.append({"t": "region", "dir": "acc parallel"})
                elif re.match(r"kernels\b", words):
                    stack.append({"t": "region", "dir": "acc kernels"})
                elif re.match(r"loop\b", words):
                    pending = {"dir": "acc loop",
                               "seq": re.search(r"\bseq\b", words)
                               is not None}
            continue
        if not line.strip() or line.strip().startswith("!"):
            continue
        mat = DO_LINE.match(line)
        if mat:
            ndo += 1
            stack.append({"t": "do", "var": mat.group(1).lower(),
                          "bounds": mat.group(2).lower(), "ws": pending,
                          "calls": [],
                          "direct_region": (stack[-1]["dir"] if stack and
                                            stack[-1]["t"] == "region"
                                            else None)})
            pending = None
            continue
        pending = None
        if END_DO.match(line):
            if not stack or stack[-1]["t"] != "do":
                raise HarnessError("unbalanced END DO in generated code")
            ent = stack.pop()
            _judge(ent, stack, records, res)
            continue
        mat = CALL.match(line)
        if mat:
            for ent in stack:
                if ent["t"] == "do":
                    ent["calls"].append(mat.group(1).lower())
    if stack:
        raise HarnessError(f"unbalanced constructs in generated code: "
                           f"{stack}")
    return res


def _pop_region(stack, name):
    if not stack or stack[-1]["t"] != "region" or stack[-1]["dir"] != name:
        raise HarnessError(f"unbalanced end of '{name}' region in the "
                           f"generated code")
    stack.pop()


def _judge(ent, stack, records, res):
    var = re.sub(r"_\d+$", "", ent["var"])
    regions = [e["dir"] for e in stack if e["t"] == "region"]
    if not STRICT_ACC_KERNELS:
        regions = [r for r in regions if r != "acc kernels"]
    incs = []
    for name in ent["calls"]:
        if name in records:
            incs += [dict(i, kernel=name) for i in shared_incs(records[name])]
    if var == "colour":
        if regions:
            res.append({"kind": "colours_in_region", "directive": regions[-1],
                        "incs": incs})
        elif ent["ws"] and not ent["ws"]["seq"]:
            res.append({"kind": "colours_in_region",
                        "directive": ent["ws"]["dir"], "incs": incs})
        return
    if var != "cell":
        return
    dname = None
    if ent["ws"] and not ent["ws"]["seq"]:
        dname = ent["ws"]["dir"]
    elif ent["direct_region"] == "acc kernels" and STRICT_ACC_KERNELS:
        dname = "acc kernels"
    if dname is None or not incs:
        return
    dos = [e for e in stack if e["t"] == "do"]
    coloured = (bool(dos) and re.sub(r"_\d+$", "", dos[-1]["var"]) ==
                "colour" and re.search(r"\(\s*colour\b", ent["bounds"])
                is not None)
    if not coloured:
        res.append({"kind": "uncoloured_parallel", "directive": dname,
                    "incs": incs})


# --------------------------------------------------------------------------
# pool of repository algorithm files
# --------------------------------------------------------------------------
def scan_pool():
    """All algorithm files of the test directory that contain an invoke
    (sorted). Whether they can be built is found out on use."""
    res = []
    for name in sorted(os.listdir(BASE)):
        path = os.path.join(BASE, name)
        if not (os.path.isfile(path) and name.lower().endswith(".f90")):
            continue
        with open(path, errors="replace") as fin:
            if re.search(r"^\s*call\s+invoke\s*\(", fin.read(),
                         re.I | re.M):
                res.append(name)
    return res
