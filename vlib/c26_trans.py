"""Helper library of property C26 ("a rejected transformation leaves the
code unchanged").

Contents
* ``TABLE``            every transformation class the check knows how to drive
                       (constructor variants, call shape, documented options,
                       the tree kinds it is paired with);
* ``exported()``       what the seven transformation packages really export
                       (so that the evidence lists used / skipped classes);
* option generators    Hypothesis strategies producing JSON option *specs*
                       from the documented options (valid values, wrong
                       types, unknown keys, non-dict);
* target enumeration   every node / contiguous sibling range / sibling pair;
* ``attempt()``        one guarded ``apply`` with raise-site labelling
                       (innermost psyclone frame + phase: validate / late);
* environments         ``GenEnv`` (Fortran source -> generic PSyIR) and
                       ``PsyEnv`` (LFRic / GOcean PSyKAl schedule built with
                       parse + PSyFactory as the repository's tests do);
* ``check_chain()``    the Hypothesis-free oracle used by replay().
"""
from __future__ import annotations

import contextlib
import enum
import functools
import importlib
import inspect
import io
import os
import re
import traceback

from vlib import snapshot as S
from vlib.runner import HarnessError

GENERIC, LFRIC, GOCEAN = "generic", "lfric", "gocean"
LFRIC_ALG, GOCEAN_ALG = "lfric_alg", "gocean_alg"
LFRIC_KERN, GOCEAN_KERN = "lfric_kern", "gocean_kern"
PSYKAL = (LFRIC, GOCEAN)

PACKAGES = [
    "psyclone.psyir.transformations",
    "psyclone.transformations",
    "psyclone.domain.lfric.transformations",
    "psyclone.domain.gocean.transformations",
    "psyclone.domain.nemo.transformations",
    "psyclone.domain.common.transformations",
    "psyclone.psyad.transformations",
]

# options never generated (documented purpose: annotate the code on refusal)
EXCLUDED_OPTIONS = {"ArrayAssignment2LoopsTrans": ["verbose"]}


def repo_root():
    return os.environ.get("VERIF_REPO", "/repo")


def test_files():
    return os.path.join(repo_root(), "src", "psyclone", "tests", "test_files")


# ----------------------------------------------------------------------
# transformation table
# ----------------------------------------------------------------------
class Spec:
    """How to drive one transformation class."""

    def __init__(self, name, shape="node", apis=(GENERIC,), opts=None,
                 ctors=None, prefer=()):
        self.name = name
        self.shape = shape          # node | region | pair | call_index
        self.apis = tuple(apis)
        self.opts = dict(opts or {})
        self.ctors = list(ctors or [{}])
        self.prefer = tuple(prefer)
        self.cls = None             # resolved lazily


ALL3 = (GENERIC, LFRIC, GOCEAN)
REGION_OPTS = {"node-type-check": "bool"}
PSYDATA_OPTS = {"prefix": "prefix", "region_name": "regname",
                "node-type-check": "bool"}
EXTRACT_OPTS = dict(PSYDATA_OPTS, create_driver="bool")
PARLOOP_OPTS = {"collapse": "int", "force": "bool", "sequential": "bool",
                "node-type-check": "bool"}
OMP_DIRECTIVES = ["do", "paralleldo", "teamsdistributeparalleldo", "loop"]
OMP_CTORS = ([{}] + [{"omp_directive": d} for d in OMP_DIRECTIVES] +
             [{"omp_schedule": s} for s in
              ["static", "dynamic", "guided,4", "auto", "none"]])
# the PSyKAl-specific OMP loop classes only document 'do' style usage
PSY_OMP_CTORS = [{}] + [{"omp_schedule": s} for s in
                        ["static", "dynamic", "guided,4", "auto"]]
INTRINSIC = ("IntrinsicCall",)
LOOP = ("Loop",)

TABLE = [
    # ---- psyclone.psyir.transformations ------------------------------
    Spec("ACCKernelsTrans", "region", ALL3,
         dict(REGION_OPTS, default_present="bool", disable_loop_check="bool"),
         prefer=("Loop", "Assignment")),
    Spec("ACCUpdateTrans", "node", ALL3, {}, prefer=("Schedule",)),
    Spec("AllArrayAccess2LoopTrans", "node", (GENERIC,), {},
         prefer=("Assignment",)),
    Spec("ArrayAccess2LoopTrans", "node", (GENERIC,), {},
         prefer=("Range", "ArrayReference", "Reference", "Literal")),
    Spec("ArrayAssignment2LoopsTrans", "node", (GENERIC,),
         {"allow_string": "bool"}, prefer=("Assignment",)),
    Spec("ChunkLoopTrans", "node", ALL3,
         {"chunksize": "int", "node-type-check": "bool"}, prefer=LOOP),
    Spec("ExtractTrans", "region", ALL3, EXTRACT_OPTS,
         prefer=("Loop", "Assignment")),
    Spec("FoldConditionalReturnExpressionsTrans", "node", (GENERIC,), {},
         prefer=("Routine",)),
    Spec("HoistLocalArraysTrans", "node", (GENERIC,),
         {"allow_accroutine": "bool"}, prefer=("Routine",)),
    Spec("HoistLoopBoundExprTrans", "node", (GENERIC,), {}, prefer=LOOP),
    Spec("HoistTrans", "node", (GENERIC,), {}, prefer=("Assignment",)),
    Spec("InlineTrans", "node", (GENERIC,), {"force": "bool"},
         prefer=("Call",)),
    Spec("LoopFuseTrans", "pair", ALL3,
         {"force": "bool", "node-type-check": "bool"}, prefer=LOOP),
    Spec("LoopSwapTrans", "node", ALL3, {"node-type-check": "bool"},
         prefer=LOOP),
    Spec("LoopTiling2DTrans", "node", ALL3,
         {"tilesize": "int", "node-type-check": "bool"}, prefer=LOOP),
    Spec("NanTestTrans", "region", ALL3, PSYDATA_OPTS,
         prefer=("Loop", "Assignment")),
    Spec("OMPLoopTrans", "node", ALL3, dict(PARLOOP_OPTS, reprod="bool"),
         ctors=OMP_CTORS, prefer=LOOP),
    Spec("OMPTargetTrans", "region", ALL3, REGION_OPTS,
         prefer=("Loop", "Assignment")),
    Spec("OMPTaskTrans", "node", (GENERIC,), PARLOOP_OPTS, prefer=LOOP),
    Spec("OMPTaskwaitTrans", "node", ALL3, {"fail_on_no_taskloop": "bool"},
         prefer=("OMPParallelDirective",)),
    Spec("ProfileTrans", "region", ALL3, PSYDATA_OPTS,
         prefer=("Loop", "Assignment")),
    Spec("PSyDataTrans", "region", ALL3, PSYDATA_OPTS,
         prefer=("Loop", "Assignment")),
    Spec("ReadOnlyVerifyTrans", "region", ALL3, PSYDATA_OPTS,
         prefer=("Loop", "Assignment")),
    Spec("Reference2ArrayRangeTrans", "node", (GENERIC,), {},
         prefer=("Reference",)),
    Spec("ReplaceInductionVariablesTrans", "node", (GENERIC,), {},
         prefer=LOOP),
    Spec("Abs2CodeTrans", "node", (GENERIC,), {}, prefer=INTRINSIC),
    Spec("DotProduct2CodeTrans", "node", (GENERIC,), {}, prefer=INTRINSIC),
    Spec("Matmul2CodeTrans", "node", (GENERIC,), {}, prefer=INTRINSIC),
    Spec("Max2CodeTrans", "node", (GENERIC,), {}, prefer=INTRINSIC),
    Spec("Min2CodeTrans", "node", (GENERIC,), {}, prefer=INTRINSIC),
    Spec("Sign2CodeTrans", "node", (GENERIC,), {}, prefer=INTRINSIC),
    Spec("Sum2LoopTrans", "node", (GENERIC,), {}, prefer=INTRINSIC),
    Spec("Product2LoopTrans", "node", (GENERIC,), {}, prefer=INTRINSIC),
    Spec("Maxval2LoopTrans", "node", (GENERIC,), {}, prefer=INTRINSIC),
    Spec("Minval2LoopTrans", "node", (GENERIC,), {}, prefer=INTRINSIC),
    # ---- psyclone.transformations ------------------------------------
    Spec("ACCDataTrans", "region", ALL3, REGION_OPTS,
         prefer=("Loop", "Assignment")),
    Spec("ACCEnterDataTrans", "node", ALL3, {},
         prefer=("Schedule", "Routine")),
    Spec("ACCLoopTrans", "node", ALL3,
         dict(PARLOOP_OPTS, independent="bool", gang="bool", vector="bool"),
         prefer=LOOP),
    Spec("ACCParallelTrans", "region", ALL3,
         dict(REGION_OPTS, default_present="bool"),
         ctors=[{}, {"default_present": False}],
         prefer=("Loop", "Assignment")),
    Spec("ACCRoutineTrans", "node", ALL3, {"force": "bool"},
         prefer=("Routine", "Kern")),
    Spec("ColourTrans", "node", ALL3, {"node-type-check": "bool"},
         prefer=LOOP),
    Spec("MoveTrans", "pair", ALL3, {"position": "str:before|after"},
         prefer=("Statement",)),
    Spec("OMPDeclareTargetTrans", "node", ALL3, {"force": "bool"},
         prefer=("Routine", "Kern")),
    Spec("OMPMasterTrans", "region", ALL3, REGION_OPTS,
         prefer=("Loop", "Assignment")),
    Spec("OMPParallelLoopTrans", "node", ALL3, PARLOOP_OPTS,
         ctors=[{}, {"omp_schedule": "dynamic"}], prefer=LOOP),
    Spec("OMPParallelTrans", "region", ALL3, REGION_OPTS,
         prefer=("Loop", "Assignment")),
    Spec("OMPSingleTrans", "region", ALL3,
         dict(REGION_OPTS, nowait="bool"),
         ctors=[{}, {"nowait": True}], prefer=("Loop", "Assignment")),
    Spec("OMPTaskloopTrans", "node", ALL3,
         dict(PARLOOP_OPTS, nogroup="bool"),
         ctors=[{}, {"grainsize": 4}, {"num_tasks": 2}, {"nogroup": True}],
         prefer=LOOP),
    Spec("Dynamo0p3AsyncHaloExchangeTrans", "node", (LFRIC,), {},
         prefer=("HaloExchange",)),
    Spec("Dynamo0p3ColourTrans", "node", (LFRIC,),
         {"node-type-check": "bool"}, prefer=LOOP),
    Spec("Dynamo0p3KernelConstTrans", "node", (LFRIC,),
         {"cellshape": "str:quadrilateral|triangle",
          "element_order": "int0", "number_of_layers": "int",
          "quadrature": "bool"}, prefer=("Kern",)),
    Spec("Dynamo0p3OMPLoopTrans", "node", (LFRIC,),
         dict(PARLOOP_OPTS, reprod="bool"), ctors=PSY_OMP_CTORS,
         prefer=LOOP),
    Spec("Dynamo0p3RedundantComputationTrans", "node", (LFRIC,),
         {"depth": "int", "node-type-check": "bool"}, prefer=LOOP),
    Spec("DynamoOMPParallelLoopTrans", "node", (LFRIC,), PARLOOP_OPTS,
         ctors=PSY_OMP_CTORS, prefer=LOOP),
    Spec("GOceanOMPLoopTrans", "node", (GOCEAN,), PARLOOP_OPTS,
         ctors=PSY_OMP_CTORS, prefer=LOOP),
    Spec("GOceanOMPParallelLoopTrans", "node", (GOCEAN,), PARLOOP_OPTS,
         ctors=PSY_OMP_CTORS, prefer=LOOP),
    Spec("KernelImportsToArguments", "node", (GOCEAN,), {},
         prefer=("Kern",)),
    # ---- psyclone.domain.common.transformations ----------------------
    Spec("AlgTrans", "node", (GENERIC, GOCEAN_ALG), {},
         prefer=("Container", "Routine")),
    Spec("RaisePSyIR2AlgTrans", "call_index", (GENERIC, GOCEAN_ALG), {},
         prefer=("Call",)),
    Spec("KernelModuleInlineTrans", "node", ALL3, {}, prefer=("Kern",)),
    # ---- psyclone.domain.lfric.transformations -----------------------
    Spec("LFRicAlgTrans", "node", (LFRIC_ALG,), {},
         prefer=("Container", "Routine")),
    Spec("LFRicAlgInvoke2PSyCallTrans", "node", (LFRIC_ALG,),
         {"kernels": "kernels"}, prefer=("Call",)),
    Spec("LFRicExtractTrans", "region", (LFRIC,), EXTRACT_OPTS,
         prefer=("Loop",)),
    Spec("LFRicLoopFuseTrans", "pair", (LFRIC,),
         {"same_space": "bool", "force": "bool", "node-type-check": "bool"},
         prefer=LOOP),
    Spec("RaisePSyIR2LFRicAlgTrans", "call_index", (LFRIC_ALG,), {},
         prefer=("Call",)),
    Spec("RaisePSyIR2LFRicKernTrans", "node", (LFRIC_KERN,),
         {"metadata_name": "metaname"}, prefer=("Container",)),
    # ---- psyclone.domain.gocean.transformations ----------------------
    Spec("GOConstLoopBoundsTrans", "node", (GOCEAN,), {},
         prefer=("Schedule",)),
    Spec("GOMoveIterationBoundariesInsideKernelTrans", "node", (GOCEAN,), {},
         prefer=("Kern",)),
    Spec("GOOpenCLTrans", "node", (GOCEAN,),
         {"enable_profiling": "bool", "out_of_order": "bool",
          "end_barrier": "bool"}, prefer=("Schedule",)),
    Spec("GOceanAlgInvoke2PSyCallTrans", "node", (GOCEAN_ALG,), {},
         prefer=("Call",)),
    Spec("GOceanExtractTrans", "region", (GOCEAN,), EXTRACT_OPTS,
         prefer=("Loop",)),
    Spec("GOceanLoopFuseTrans", "pair", (GOCEAN,),
         {"force": "bool", "node-type-check": "bool"}, prefer=LOOP),
    Spec("RaisePSyIR2GOceanKernTrans", "node", (GOCEAN_KERN,), {},
         ctors=[{"metadata_name": "compute_cu"},
                {"metadata_name": "kernel_scalar_int"},
                {"metadata_name": "no_such_type"}],
         prefer=("Container",)),
    # ---- psyclone.domain.nemo.transformations ------------------------
    Spec("CreateNemoInvokeScheduleTrans", "node", (GENERIC,), {},
         prefer=("Routine",)),
    Spec("CreateNemoPSyTrans", "node", (GENERIC,), {},
         prefer=("Container", "Routine", "Loop")),
    # ---- psyclone.psyad.transformations ------------------------------
    Spec("AssignmentTrans", "node", (GENERIC,), {},
         ctors=[{"active_variables": {"$syms": ["x", "y", "t"]}},
                {"active_variables": {"$syms": ["a", "b", "c", "x"]}},
                {"active_variables": {"$syms": ["k", "it"]}}],
         prefer=("Assignment",)),
]
BYNAME = {spec.name: spec for spec in TABLE}


def exported():
    """{class name: (class, [packages exporting it])} for every
    Transformation subclass exported by PACKAGES."""
    from psyclone.psyGen import Transformation
    out = {}
    for pkg in PACKAGES:
        mod = importlib.import_module(pkg)
        for name in sorted(dir(mod)):
            obj = getattr(mod, name)
            if inspect.isclass(obj) and issubclass(obj, Transformation):
                out.setdefault(name, (obj, []))[1].append(pkg)
    return out


_RESOLVED = {}


def resolve():
    """Resolve TABLE against the working tree. Returns (used, skipped):
    used = sorted list of names, skipped = {name: reason}."""
    if _RESOLVED:
        return _RESOLVED["used"], _RESOLVED["skipped"]
    exp = exported()
    skipped = {}
    used = []
    for name, (cls, _) in sorted(exp.items()):
        if inspect.isabstract(cls):
            skipped[name] = "abstract base class (cannot be instantiated)"
            continue
        spec = BYNAME.get(name)
        if spec is None:
            skipped[name] = "not in the C26 table (class added after the " \
                            "check was written)"
            continue
        spec.cls = cls
        try:
            make(spec, spec.ctors[0], None)
        except Exception as err:      # pylint: disable=broad-except
            skipped[name] = f"constructor failed: {type(err).__name__}: {err}"
            spec.cls = None
            continue
        used.append(name)
        _patch_validate(cls)
    for spec in TABLE:
        if spec.name not in exp:
            skipped[spec.name] = "not exported by this working tree"
    _RESOLVED.update(used=used, skipped=skipped)
    return used, skipped


def specs_for(api):
    used, _ = resolve()
    return [BYNAME[n] for n in used if api in BYNAME[n].apis]


def make(spec, ctor, root):
    """Instantiate the transformation. `ctor` is a JSON dict of keyword
    arguments; {"$syms": [names]} is resolved against the symbol tables
    of `root`."""
    kwargs = {}
    for key, val in ctor.items():
        if isinstance(val, dict) and "$syms" in val:
            syms = []
            if root is not None:
                from psyclone.psyir.nodes import Routine
                routines = root.walk(Routine)
                if routines:
                    table = routines[0].symbol_table
                    for name in val["$syms"]:
                        try:
                            syms.append(table.lookup(name))
                        except KeyError:
                            pass
                    if not syms:
                        from psyclone.psyir.symbols import DataSymbol
                        syms = table.datasymbols[:2]
            if not syms:
                # the constructor insists on at least one variable
                from psyclone.psyir.symbols import DataSymbol, REAL_TYPE
                syms = [DataSymbol("c26_active", REAL_TYPE)]
            val = syms
        kwargs[key] = val
    return spec.cls(**kwargs)


# ----------------------------------------------------------------------
# validate() tracking: which phase of apply() raised?
# ----------------------------------------------------------------------
_TRACK = {"obj": None, "depth": 0, "done": 0, "raised": 0}
_PATCHED = set()


def _wrap_validate(func):
    @functools.wraps(func)
    def c26_validate_wrapper(self, *args, **kwargs):
        if self is not _TRACK["obj"]:
            return func(self, *args, **kwargs)
        _TRACK["depth"] += 1
        try:
            res = func(self, *args, **kwargs)
        except BaseException:
            if _TRACK["depth"] == 1:
                _TRACK["raised"] += 1
            raise
        finally:
            _TRACK["depth"] -= 1
        if _TRACK["depth"] == 0:
            _TRACK["done"] += 1
        return res
    return c26_validate_wrapper


def _patch_validate(cls):
    """Wrap every validate() in the MRO of `cls` with a transparent counter
    (no change of behaviour: arguments, result and exceptions pass
    through)."""
    for klass in cls.__mro__:
        if klass in _PATCHED or klass is object:
            continue
        _PATCHED.add(klass)
        func = klass.__dict__.get("validate")
        if inspect.isfunction(func):
            setattr(klass, "validate", _wrap_validate(func))


def raise_site(err):
    """'relative/file.py:line' of the innermost psyclone frame."""
    where = "?"
    for frm in traceback.extract_tb(err.__traceback__):
        fname = frm.filename.replace(os.sep, "/")
        if "/psyclone/" in fname and "/tests/" not in fname:
            where = f"{fname.rsplit('/psyclone/', 1)[1]}:{frm.lineno}"
    return where


class Outcome:
    __slots__ = ("kind", "site", "phase", "exc", "msg")

    def __init__(self, kind, site=None, phase=None, exc=None, msg=""):
        self.kind = kind        # refused | ok | other
        self.site = site
        self.phase = phase      # validate | late | apply (no validate seen)
        self.exc = exc
        self.msg = msg


_SINK = io.StringIO()


def attempt(trans, shape, nodes, extra, options):
    """One guarded apply. `nodes`: list of target nodes, `extra`: the index
    argument of call_index transformations."""
    from psyclone.psyir.transformations import TransformationError
    _TRACK.update(obj=trans, depth=0, done=0, raised=0)
    _SINK.seek(0)
    _SINK.truncate()
    try:
        with contextlib.redirect_stdout(_SINK), \
                contextlib.redirect_stderr(_SINK):
            if shape == "node":
                trans.apply(nodes[0], options)
            elif shape == "list":
                trans.apply(list(nodes), options)
            elif shape == "pair":
                trans.apply(nodes[0], nodes[1], options)
            elif shape == "call_index":
                trans.apply(nodes[0], extra, options)
            else:
                raise HarnessError(f"unknown call shape {shape}")
    except TransformationError as err:
        if _TRACK["done"] > 0:
            phase = "late"
        elif _TRACK["raised"] > 0:
            phase = "validate"
        else:
            phase = "apply"
        return Outcome("refused", raise_site(err), phase,
                       type(err).__name__, str(err)[:200])
    except HarnessError:
        raise
    except RecursionError as err:
        return Outcome("other", raise_site(err), None, "RecursionError", "")
    except Exception as err:          # pylint: disable=broad-except
        return Outcome("other", raise_site(err), None,
                       type(err).__name__, str(err)[:200])
    finally:
        _TRACK["obj"] = None
    return Outcome("ok")


# ----------------------------------------------------------------------
# option specs (JSON) and their strategies
# ----------------------------------------------------------------------
WRONG_POOL = ["x", 1.5, -1, 0, None, [1, 2], {"$t": ["a"]}, True,
              {"$t": ["a", "b", "c"]}, {"$t": [1, 2]}, 100000]


def option_value(draw, kind):
    from hypothesis import strategies as st
    if kind == "bool":
        return draw(st.booleans())
    if kind == "int":
        return draw(st.sampled_from([1, 2, 3, 4, 5, 8, 32]))
    if kind == "int0":
        return draw(st.sampled_from([0, 1, 2]))
    if kind.startswith("str:"):
        return draw(st.sampled_from(kind[4:].split("|")))
    if kind == "prefix":
        return draw(st.sampled_from(["profile", "extract",
                                     "read_only_verify", "nan_test", ""]))
    if kind == "regname":
        return {"$t": [draw(st.sampled_from(["mod", "m_1", "a"])),
                       draw(st.sampled_from(["reg", "r_2", "b"]))]}
    if kind == "metaname":
        return draw(st.sampled_from(["testkern_type", "testkern_qr_type",
                                     "no_such_type"]))
    if kind == "kernels":
        return draw(st.sampled_from([None, [], {"$d": []}]))
    raise HarnessError(f"unknown option kind {kind}")


def option_spec(draw, spec):
    """A JSON option spec: None, or a dict, or {"$nondict": value}."""
    from hypothesis import strategies as st
    keys = sorted(spec.opts)
    mode = draw(st.sampled_from(
        ["none", "none", "empty", "valid", "valid", "valid", "valid",
         "wrong", "wrong", "unknown", "mixed", "nondict"]))
    if mode == "none" or (mode in ("valid", "wrong") and not keys):
        return None
    if mode == "empty":
        return {}
    if mode == "nondict":
        return {"$nondict": draw(st.sampled_from(["x", 3, [1], True]))}
    out = {}
    if keys:
        chosen = draw(st.lists(st.sampled_from(keys), min_size=1,
                               max_size=min(3, len(keys)), unique=True))
        for key in chosen:
            out[key] = option_value(draw, spec.opts[key])
    if mode in ("wrong", "mixed") and keys:
        key = draw(st.sampled_from(keys))
        out[key] = draw(st.sampled_from(WRONG_POOL))
    if mode in ("unknown", "mixed"):
        out[draw(st.sampled_from(["bogus_option", "Chunksize", "forced"]))] \
            = draw(st.sampled_from([1, True, "x"]))
    return out


def decode_value(val):
    if isinstance(val, dict):
        if "$t" in val:
            return tuple(decode_value(x) for x in val["$t"])
        if "$d" in val:
            return {k: decode_value(v) for k, v in val["$d"]}
        return {k: decode_value(v) for k, v in val.items()}
    if isinstance(val, list):
        return [decode_value(x) for x in val]
    return val


def decode_options(ospec):
    """A *fresh* options object for one apply (transformations are allowed
    to write into the dictionary they are given)."""
    if ospec is None:
        return None
    if "$nondict" in ospec:
        return decode_value(ospec["$nondict"])
    return {key: decode_value(val) for key, val in ospec.items()}


# ----------------------------------------------------------------------
# targets
# ----------------------------------------------------------------------
def class_names(node):
    return {k.__name__ for k in type(node).__mro__}


def enumerate_targets(spec, nodes, seeds):
    """All targets of `spec` in the tree whose walk() list is `nodes`, as
    JSON specs {"k": call-shape, "i": [node indices], "x": extra}.
    Exhaustive part + a few seed-chosen ones (non-sibling lists/pairs)."""
    from psyclone.psyir.nodes import Schedule
    index = {id(n): i for i, n in enumerate(nodes)}
    count = len(nodes)
    out = []
    if spec.shape == "node":
        out = [{"k": "node", "i": [i]} for i in range(count)]
    elif spec.shape == "call_index":
        from psyclone.psyir.nodes import Call
        for i, node in enumerate(nodes):
            out.append({"k": "call_index", "i": [i], "x": 0})
            if isinstance(node, Call):
                for extra in (1, -1, 7, "x"):
                    out.append({"k": "call_index", "i": [i], "x": extra})
    elif spec.shape == "region":
        out = [{"k": "node", "i": [i]} for i in range(count)]
        out.append({"k": "list", "i": []})
        for node in nodes:
            kids = node.children
            if not kids:
                continue
            ids = [index[id(k)] for k in kids]
            if isinstance(node, Schedule):
                for lo in range(len(ids)):
                    for hi in range(lo + 1, len(ids) + 1):
                        out.append({"k": "list", "i": ids[lo:hi]})
            else:
                for lo in range(len(ids) - 1):
                    out.append({"k": "list", "i": ids[lo:lo + 2]})
        for pos in range(0, len(seeds) - 1, 2):
            one, two = seeds[pos] % count, seeds[pos + 1] % count
            out.append({"k": "list", "i": [one, two]})
            out.append({"k": "list", "i": [two, one, one]})
    elif spec.shape == "pair":
        for node in nodes:
            kids = node.children
            ids = [index[id(k)] for k in kids]
            if isinstance(node, Schedule):
                for one in ids:
                    for two in ids:
                        out.append({"k": "pair", "i": [one, two]})
            else:
                for lo in range(len(ids) - 1):
                    out.append({"k": "pair", "i": [ids[lo], ids[lo + 1]]})
                    out.append({"k": "pair", "i": [ids[lo + 1], ids[lo]]})
        for pos in range(0, len(seeds) - 1, 2):
            out.append({"k": "pair", "i": [seeds[pos] % count,
                                           seeds[pos + 1] % count]})
    else:
        raise HarnessError(f"unknown shape {spec.shape}")
    return out


def preferred(spec, nodes, target):
    if not target["i"] or not spec.prefer:
        return False
    names = class_names(nodes[target["i"][0]])
    return any(p in names for p in spec.prefer)


# ----------------------------------------------------------------------
# PSyKAl-aware snapshot (vlib.snapshot handles language-level PSyIR; PSyKAl
# nodes carry non-node helper objects with back links)
# ----------------------------------------------------------------------
_ADDR = re.compile(r" at 0x[0-9a-fA-F]+")
_NODE_SKIP = frozenset(S._NODE_SKIP)


def _penc(val, depth, path):
    # pylint: disable=too-many-return-statements,too-many-branches
    if val is None or isinstance(val, (bool, int, str)):
        return val
    if isinstance(val, float):
        return repr(val)
    if isinstance(val, enum.Enum):
        return f"{type(val).__name__}.{val.name}"
    from psyclone.psyir.nodes import Node
    from psyclone.psyir.symbols import DataType, Symbol, SymbolTable
    from psyclone.psyGen import Invoke, Invokes, PSy
    if isinstance(val, Symbol):
        return ["sym", type(val).__name__, val.name.lower()]
    if isinstance(val, DataType):
        return S._enc(val)
    if isinstance(val, SymbolTable):
        return ["symtab"]
    if isinstance(val, (Invoke, Invokes, PSy)):
        return ["obj", type(val).__name__]
    if id(val) in path or depth > 6:
        return ["ref", type(val).__name__]
    if isinstance(val, Node):
        top = val.root
        if top is _PSNAP["root"]:
            # a link into the tree being snapshotted
            return ["noderef", type(val).__name__]
        # a foreign tree (e.g. the kernel schedule cached in a CodedKern,
        # which sits inside its own Container): part of the state
        if id(top) in path:
            return ["ref", type(val).__name__]
        path.add(id(top))
        out = ["tree", type(val).__name__, val.abs_position
               if top is not val else 0, _psnap_node(top, path)]
        path.discard(id(top))
        return out
    if isinstance(val, (list, tuple)):
        path.add(id(val))
        out = [_penc(x, depth + 1, path) for x in val]
        path.discard(id(val))
        return out
    if isinstance(val, (set, frozenset)):
        return sorted((_penc(x, depth + 1, path) for x in val), key=repr)
    if isinstance(val, dict):
        path.add(id(val))
        out = sorted(([_penc(k, depth + 1, path), _penc(v, depth + 1, path)]
                      for k, v in val.items()), key=repr)
        path.discard(id(val))
        return out
    mod = type(val).__module__ or ""
    if mod.startswith("fparser"):
        try:
            return ["fparser", type(val).__name__,
                    _ADDR.sub("", str(val))[:4000]]
        except Exception:             # pylint: disable=broad-except
            return ["fparser", type(val).__name__]
    if mod.startswith("psyclone"):
        state = getattr(val, "__dict__", None)
        if isinstance(state, dict):
            path.add(id(val))
            out = ["obj", type(val).__name__,
                   [[k, _penc(state[k], depth + 1, path)]
                    for k in sorted(state)]]
            path.discard(id(val))
            return out
    return ["obj", type(val).__name__]


def _psnap_node(node, path):
    from psyclone.psyir.nodes import Call
    path.add(id(node))
    state = vars(node)
    attrs = [[k, _penc(state[k], 0, path)] for k in sorted(state)
             if k not in _NODE_SKIP]
    if isinstance(node, Call):
        try:
            attrs.append(["argument_names", list(node.argument_names)])
        except Exception as err:      # pylint: disable=broad-except
            attrs.append(["argument_names", f"<{type(err).__name__}>"])
    table = None
    if state.get("_symbol_table") is not None:
        table = S._snap_table(state["_symbol_table"])
    kids = [_psnap_node(c, path) for c in list(node.children)]
    path.discard(id(node))
    return [type(node).__name__, attrs, kids, table]


_PSNAP = {"root": None}


def psy_snap(root):
    _PSNAP["root"] = root
    try:
        return {"tree": _psnap_node(root, set()), "text": None}
    finally:
        _PSNAP["root"] = None


# ----------------------------------------------------------------------
# environments
# ----------------------------------------------------------------------
class GenEnv:
    """Generic PSyIR of one Fortran source text."""
    psykal = False

    def __init__(self, source, api=GENERIC, setup=()):
        self.source = source
        self.api = api
        self.setup = list(setup)
        self.master = None
        self.root = None
        self.nodes = None
        self.via_copy = False
        self._fresh_snap = None
        self.master_text = None

    def describe(self):
        return {"kind": "src", "api": self.api, "source": self.source,
                "setup": self.setup}

    def _parse(self):
        from vlib import psy as P
        try:
            return P.read(self.source)
        except Exception as err:
            raise HarnessError(
                f"C26: cannot parse the source under test: "
                f"{type(err).__name__}: {err}\n{self.source}") from err

    def build(self):
        """Parse + setup steps (each step is a resolved attempt that
        succeeded when the case was generated)."""
        self.master = self._parse()
        for step in self.setup:
            run_step(self.master, step)
        self.root = self.master
        self.nodes = walk(self.root)
        self.via_copy = False

    def fresh(self):
        """A pristine working tree (copy of the master)."""
        if self.master is None:
            self.build()
        self.root = self.master.copy()
        self.nodes = walk(self.root)
        self.via_copy = True

    def set_master(self, root):
        self.master = root
        self._fresh_snap = None
        self.master_text = None

    def snap(self):
        return S.snap(self.root)

    def snap_fresh(self):
        """Snapshot of the tree right after fresh() (all copies of one
        master have the same snapshot: computed once per master)."""
        if self._fresh_snap is None:
            self._fresh_snap = S.snap(self.root)
        return self._fresh_snap

    def accept_after(self, before, after):
        return None if before == after else S.first_diff(before, after)

    def text(self):
        from psyclone.psyir.backend.fortran import FortranWriter
        try:
            return FortranWriter()(self.root)
        except Exception as err:      # pylint: disable=broad-except
            return f"<{type(err).__name__}: {str(err)[:120]}>"

    def text_is_destructive(self):
        return False


_INFO_CACHE = {}


class PsyEnv:
    """LFRic / GOcean PSy layer built from one of the repository's test
    algorithms (parse + PSyFactory, as tests/utilities.get_invoke)."""
    psykal = True
    API_NAME = {LFRIC: "dynamo0.3", GOCEAN: "gocean1.0"}
    API_DIR = {LFRIC: "dynamo0p3", GOCEAN: "gocean1p0"}

    def __init__(self, api, algfile, dist_mem, setup=(), materialise=True):
        self.api = api
        self.algfile = algfile
        self.dist_mem = bool(dist_mem)
        self.setup = list(setup)
        # LFRic only: read-only queries have side effects on a 'cold' tree.
        # LFRicLoop.start_expr / stop_expr are accessors that *replace* the
        # placeholder bound children by References to loop<N>_start/_stop
        # symbols which they create on first use, and
        # LFRicKern.reference_accesses() (every dependence analysis) creates
        # the kernel-argument symbols in the invoke's symbol table. With
        # materialise=True both queries are run once up front so that the
        # search is not blinded by this (the behaviour itself is pinned by
        # corpus/C26/lfric_cold_*.json, which use materialise=False).
        self.materialise = bool(materialise)
        self.psy = None
        self.root = None
        self.nodes = None
        self.via_copy = False
        self._ref_text = None

    def describe(self):
        return {"kind": "psy", "api": self.api, "file": self.algfile,
                "dm": self.dist_mem, "setup": self.setup,
                "materialise": self.materialise}

    def _info(self, cached):
        from psyclone.configuration import Config
        from psyclone.parse.algorithm import parse
        key = (self.api, self.algfile, repo_root())
        apiname = self.API_NAME[self.api]
        Config.get().api = apiname
        if cached and key in _INFO_CACHE:
            return _INFO_CACHE[key]
        path = os.path.join(test_files(), self.API_DIR[self.api],
                            self.algfile)
        try:
            _, info = parse(path, api=apiname)
        except Exception as err:
            raise HarnessError(f"C26: cannot parse {path}: "
                               f"{type(err).__name__}: {err}") from err
        if cached:
            _INFO_CACHE[key] = info
        return info

    def _create(self, cached=True):
        from psyclone.psyGen import PSyFactory
        from psyclone.psyir.transformations import PSyDataTrans
        # region names of PSyData setup steps come from a process-global
        # counter: every build starts from the same state
        PSyDataTrans._used_kernel_names = {}
        info = self._info(cached)
        psy = PSyFactory(self.API_NAME[self.api],
                         distributed_memory=self.dist_mem).create(info)
        root = psy.container
        self._materialise(root)
        for step in self.setup:
            run_step(root, step)
            self._materialise(root)
        return psy

    def _materialise(self, root):
        if not self.materialise or self.api != LFRIC:
            return
        from psyclone.core import VariablesAccessInfo
        from psyclone.domain.lfric import LFRicLoop
        for loop in root.walk(LFRicLoop):
            try:
                _ = loop.start_expr
                _ = loop.stop_expr
            except Exception:         # pylint: disable=broad-except
                pass
        # LFRicKern.reference_accesses() builds the kernel argument list,
        # which creates the ndf/undf/map/basis/... symbols in the invoke's
        # symbol table on first use
        try:
            VariablesAccessInfo(root)
        except Exception:             # pylint: disable=broad-except
            pass

    def build(self, cached=False):
        self.psy = self._create(cached)
        self.root = self.psy.container
        self.nodes = walk(self.root)

    def fresh(self):
        self.build(cached=True)

    def snap(self):
        return psy_snap(self.root)

    def snap_fresh(self):
        return psy_snap(self.root)

    def _loaded(self, root):
        from psyclone.psyGen import CodedKern
        return [k._kern_schedule is not None for k in root.walk(CodedKern)]

    def accept_after(self, before, after):
        """None if `after` is an acceptable state for a refusal: equal to
        `before`, or equal to a pristine twin in which the same kernel
        schedules have been loaded (get_kernel_schedule() caches its result
        in the node: filling that cache is not a change of the code)."""
        if before == after:
            return None
        from psyclone.psyGen import CodedKern
        try:
            twin = self._create(cached=True).container
            mine = self.root.walk(CodedKern)
            theirs = twin.walk(CodedKern)
            if len(mine) == len(theirs):
                for kern, other in zip(mine, theirs):
                    if kern._kern_schedule is not None:
                        other.get_kernel_schedule()
                if psy_snap(twin) == after:
                    return None
        except Exception:             # pylint: disable=broad-except
            pass
        return S.first_diff(before, after)

    def text(self):
        """str(psy.gen): lowers the tree in place -> the environment must
        be rebuilt afterwards."""
        import shutil
        import tempfile
        from psyclone.configuration import Config
        # transformed kernels are written at gen time under a name that
        # depends on the files already present: always use an empty directory
        outdir = tempfile.mkdtemp(prefix="kern-", dir=os.getcwd())
        Config.get().kernel_output_dir = outdir
        try:
            with contextlib.redirect_stdout(_SINK), \
                    contextlib.redirect_stderr(_SINK):
                try:
                    return str(self.psy.gen)
                except Exception as err:  # pylint: disable=broad-except
                    return f"<{type(err).__name__}: {str(err)[:120]}>"
        finally:
            Config.get().kernel_output_dir = os.getcwd()
            shutil.rmtree(outdir, ignore_errors=True)

    def text_is_destructive(self):
        return True

    def reference_text(self):
        if self._ref_text is None:
            twin = PsyEnv(self.api, self.algfile, self.dist_mem, self.setup,
                          self.materialise)
            twin.build(cached=True)
            self._ref_text = twin.text()
        return self._ref_text


def walk(root):
    from psyclone.psyir.nodes import Node
    return root.walk(Node)


def run_step(root, step):
    """Apply a resolved setup step; it must succeed (it did when the case
    was generated)."""
    spec = BYNAME[step["t"]]
    if spec.cls is None:
        resolve()
    nodes = walk(root)
    trans = make(spec, step["ctor"], root)
    tgt = step["target"]
    res = attempt(trans, tgt["k"], [nodes[i] for i in tgt["i"]],
                  tgt.get("x"), decode_options(step["opts"]))
    if res.kind != "ok":
        raise SetupFailed(f"setup step {step} did not succeed: "
                          f"{res.kind} {res.exc} {res.msg}")


class SetupFailed(Exception):
    """A setup transformation did not apply."""


def env_from(desc):
    if desc["kind"] == "psy":
        return PsyEnv(desc["api"], desc["file"], desc["dm"],
                      desc.get("setup", ()), desc.get("materialise", True))
    return GenEnv(desc["source"], desc.get("api", GENERIC),
                  desc.get("setup", ()))


def reset_state():
    from vlib import psy as P
    P.reset_state()


# ----------------------------------------------------------------------
# the oracle for one attempt / a chain of attempts (no Hypothesis)
# ----------------------------------------------------------------------
def check_refusal(env, before, parents, nodes):
    """Snapshot / links / parent checks after a refusal. Returns
    (oracle-id, message) or None; `before` is the snapshot taken before
    the attempt."""
    after = env.snap()
    diff = env.accept_after(before, after)
    if diff is not None:
        return ("snap", f"tree or symbol tables changed: {diff}"), after
    msg = S.links_ok(env.root)
    if msg is not None:
        return ("links", f"links broken after refusal: {msg}"), after
    for node, par in zip(nodes, parents):
        if node.parent is not par:
            return ("parent", f"parent of target {type(node).__name__} "
                              f"changed"), after
    return None, after


def check_chain(desc, attempts, fresh_parse=True):
    """Re-execute `attempts` (list of {"t","ctor","target","opts"}) in order
    on a freshly built environment; every refusal is checked with the full
    oracle (snapshot, links, written text). Returns a message or None."""
    resolve()
    reset_state()
    env = env_from(desc)
    try:
        env.build()
        if not fresh_parse:
            env.fresh()
    except SetupFailed as err:
        raise HarnessError(str(err)) from err
    text_before = env.reference_text() if env.psykal else env.text()
    before = env.snap()
    nrefused = 0
    for att in attempts:
        spec = BYNAME[att["t"]]
        if spec.cls is None:
            return None               # class not available in this tree
        trans = make(spec, att["ctor"], env.root)
        tgt = att["target"]
        if any(i >= len(env.nodes) for i in tgt["i"]):
            raise HarnessError(f"C26 replay: target {tgt} out of range")
        nodes = [env.nodes[i] for i in tgt["i"]]
        parents = [n.parent for n in nodes]
        res = attempt(trans, tgt["k"], nodes, tgt.get("x"),
                      decode_options(att["opts"]))
        if res.kind != "refused":
            # nothing is claimed about accepted / crashing attempts; the
            # chain cannot be continued on a modified tree
            break
        nrefused += 1
        bad, after = check_refusal(env, before, parents, nodes)
        if bad is not None:
            return (f"{att['t']} refused ({res.phase} @ {res.site}: "
                    f"{res.msg}) but {bad[1]}")
        before = after
        if not env.psykal:
            text_after = env.text()
            if text_after != text_before:
                return (f"{att['t']} refused ({res.phase} @ {res.site}) but "
                        f"the written code changed: "
                        f"{text_diff(text_before, text_after)}")
    if env.psykal and nrefused:
        text_after = env.text()
        if text_after != text_before:
            return (f"after the refused attempt(s) the generated PSy layer "
                    f"differs: {text_diff(text_before, text_after)}")
    return None


def text_diff(one, two):
    import difflib
    lines = [ln for ln in difflib.unified_diff(
        one.splitlines(), two.splitlines(), lineterm="", n=0)
        if not ln.startswith(("---", "+++", "@@"))]
    return " | ".join(lines[:8])[:600]


def static_raise_count():
    """Number of 'raise TransformationError' statements in the
    transformation modules of the working tree (denominator shown in the
    evidence, informational)."""
    import ast
    import glob
    base = os.path.join(repo_root(), "src", "psyclone")
    files = [os.path.join(base, "transformations.py")]
    for pat in ("psyir/transformations/**/*.py",
                "domain/*/transformations/*.py",
                "psyad/transformations/*.py"):
        files += sorted(glob.glob(os.path.join(base, pat), recursive=True))
    total = 0
    for path in files:
        try:
            with open(path) as fin:
                tree = ast.parse(fin.read())
        except (OSError, SyntaxError):
            continue
        for node in ast.walk(tree):
            if isinstance(node, ast.Raise) and node.exc is not None and \
                    "TransformationError" in ast.unparse(node.exc)[:60]:
                total += 1
    return total
