"""Truth model of LFRic halo state (C22).

Two independent parts:

* ``parse_psy(text)``: reads the *generated Fortran text* of one
  distributed-memory invoke into a list of events (halo exchanges, loops
  with their upper bound and the kernel / built-in calls inside, set_dirty /
  set_clean calls, OpenMP parallel region markers).  Every executable
  statement that is not understood raises ``HarnessError`` so that nothing
  is silently skipped.

* ``execute(events, records, fields, ...)``: abstract execution for one
  mesh halo depth ``M`` and one initial halo state.  Per field it keeps

    - ``k``: the run-time flags (halo_dirty(1:k) == 0; field_parent_mod:
      set_dirty() -> all dirty, set_clean(d) and halo_exchange(d) clean
      levels 1..d, is_dirty(d) tests level d).  Only prefix-shaped flag
      vectors are reachable with those three operations.
    - ``t``: the ground truth: -1 halo dirty and annexed DoFs incorrect,
      0 halo dirty but annexed DoFs correct, d >= 1 halo (and annexed DoFs)
      correct to depth d.

  Requirement / effect rules are those of the developer guide (APIs.rst:
  "Cell iterators: Continuous / Discontinuous", "Dof iterators", "Halo
  Exchange Logic"); wherever the guide leaves room the rule that makes the
  truth *cleaner* is chosen (the check then reports less, never more).
"""
import re

from vlib.runner import HarnessError
from vlib import gen_lfric_invoke as G


# --------------------------------------------------------------------------
# depth expressions
# --------------------------------------------------------------------------
_TOKEN = re.compile(r"\s*(\d+|\w+|[-+*(),])")


def eval_depth(expr, env):
    """Evaluate an integer expression made of literals, names in `env`,
    + - *, parentheses and MAX(...)."""
    tokens = []
    pos = 0
    expr = expr.strip()
    while pos < len(expr):
        mat = _TOKEN.match(expr, pos)
        if not mat:
            raise HarnessError(f"cannot tokenise depth expression {expr!r}")
        tokens.append(mat.group(1))
        pos = mat.end()
    idx = [0]

    def peek():
        return tokens[idx[0]] if idx[0] < len(tokens) else None

    def take(tok=None):
        cur = peek()
        if cur is None or (tok is not None and cur != tok):
            raise HarnessError(f"bad depth expression {expr!r}")
        idx[0] += 1
        return cur

    def atom():
        cur = take()
        if cur.isdigit():
            return int(cur)
        if cur == "(":
            val = summ()
            take(")")
            return val
        if cur == "-":
            return -atom()
        if cur.lower() == "max":
            take("(")
            vals = [summ()]
            while peek() == ",":
                take(",")
                vals.append(summ())
            take(")")
            return max(vals)
        if re.fullmatch(r"[a-zA-Z_]\w*", cur):
            if cur.lower() not in env:
                raise HarnessError(f"unknown name {cur!r} in depth "
                                   f"expression {expr!r}")
            return env[cur.lower()]
        raise HarnessError(f"bad depth expression {expr!r}")

    def prod():
        val = atom()
        while peek() == "*":
            take("*")
            val *= atom()
        return val

    def summ():
        val = prod()
        while peek() in ("+", "-"):
            if take() == "+":
                val += prod()
            else:
                val -= prod()
        return val

    res = summ()
    if peek() is not None:
        raise HarnessError(f"trailing tokens in depth expression {expr!r}")
    return res


# --------------------------------------------------------------------------
# parser of the generated PSy layer
# --------------------------------------------------------------------------
def _split_top(text):
    parts, depth, cur = [], 0, ""
    for char in text:
        if char == "(":
            depth += 1
        elif char == ")":
            depth -= 1
        if char == "," and depth == 0:
            parts.append(cur.strip())
            cur = ""
        else:
            cur += char
    if cur.strip():
        parts.append(cur.strip())
    return parts


_PROXY = r"(\w+)_proxy(\(\d+\))?"
_HX = re.compile(r"call " + _PROXY + r"%halo_exchange(_start|_finish)?"
                 r"\(depth=(.*)\)$")
_IF_DIRTY = re.compile(r"if \(" + _PROXY +
                       r"%is_dirty\(depth=(.*)\)\) then$")
_DIRTY = re.compile(r"call " + _PROXY + r"%set_dirty\(\)$")
_CLEAN = re.compile(r"call " + _PROXY + r"%set_clean\((.*)\)$")
_DO = re.compile(r"do (\w+) = (.+)$")
_CALL = re.compile(r"call (\w+)\((.*)\)$")
_ASSIGN = re.compile(r"(\w+)_data\(df\) = (.*)$")
_BOUND = re.compile(r"(loop\d+_(?:start|stop)) = (.*)$")


def _bound_of(rhs):
    """Classify the right-hand side of a 'loopN_stop = ...' assignment."""
    rhs = rhs.strip()
    if rhs == "mesh%get_last_edge_cell()":
        return ("cell", "edge", None)
    mat = re.fullmatch(r"mesh%get_last_halo_cell\((.*)\)", rhs)
    if mat:
        return ("cell", "halo", mat.group(1).strip() or None)
    mat = re.fullmatch(r"(\w+)_proxy%vspace%get_last_dof_(owned|annexed)\(\)",
                       rhs)
    if mat:
        return ("dof", mat.group(2), None)
    mat = re.fullmatch(r"(\w+)_proxy%vspace%get_last_dof_halo\((.*)\)", rhs)
    if mat:
        return ("dof", "halo", mat.group(2).strip() or None)
    if rhs == "ncolour":
        return ("colours", None, None)
    raise HarnessError(f"unknown loop bound {rhs!r}")


def parse_psy(text):
    """Event list of the (single) invoke subroutine in `text`.

    Events (dicts):
      {"ev": "hx", "field", "depth" (expr str), "guard": bool,
       "mode": "sync"|"start"|"finish"}
      {"ev": "loop", "space": "cell"|"dof", "bound": "edge"|"halo"|"owned"|
       "annexed", "depth": expr str or None (deepest), "coloured": bool,
       "calls": [{"kind": "kern", "name", "fields": [..]} |
                 {"kind": "builtin", "lhs", "rhs": [..]}]}
      {"ev": "dirty", "field"} / {"ev": "clean", "field", "depth"}
      {"ev": "region", "what": "begin"|"end"}
    """
    # pylint: disable=too-many-locals, too-many-branches, too-many-statements
    lines = [ln.strip() for ln in text.splitlines()]
    subs = [i for i, ln in enumerate(lines)
            if re.match(r"subroutine\s+\w+", ln, re.I)]
    ends = [i for i, ln in enumerate(lines)
            if re.match(r"end\s+subroutine", ln, re.I)]
    if len(subs) != 1 or len(ends) != 1:
        raise HarnessError("expected exactly one invoke subroutine")
    body = lines[subs[0] + 1:ends[0]]
    try:
        start = next(i for i, ln in enumerate(body)
                     if ln.lower().startswith(
                         "! call kernels and communication routines"))
    except StopIteration:
        raise HarnessError("no executable section marker in the PSy layer")
    bounds = {}
    names = set()
    for line in body[:start]:
        if not line or line.startswith("!"):
            continue
        low = line.lower()
        mat = _BOUND.match(low)
        if mat:
            rhs = mat.group(2).strip()
            bounds[mat.group(1)] = rhs
    events = []
    stack = []          # open DO loops
    guard = None        # (field, depth expr) of an open IF block
    for raw in body[start:]:
        if not raw:
            continue
        low = raw.lower()
        if low.startswith("!$omp"):
            direc = low[5:].strip()
            if direc.startswith("end parallel do") or \
                    direc.startswith("parallel do"):
                continue            # one loop: no deferred flag updates
            if direc.startswith("end parallel"):
                events.append({"ev": "region", "what": "end"})
            elif direc.startswith("parallel"):
                events.append({"ev": "region", "what": "begin"})
            elif direc.startswith("do") or direc.startswith("end do"):
                pass
            else:
                raise HarnessError(f"unknown directive {raw!r}")
            continue
        if low.startswith("!"):
            continue
        mat = _IF_DIRTY.match(low)
        if mat:
            if guard or (stack and not (len(stack) == 1 and
                                        stack[0]["space"] == "colours")):
                raise HarnessError(f"unexpected IF nesting at {raw!r}")
            guard = (mat.group(1) + (mat.group(2) or ""),
                     mat.group(3).strip())
            continue
        if re.match(r"end\s*if$", low):
            if not guard:
                raise HarnessError("END IF without IF")
            guard = None
            continue
        mat = _HX.match(low)
        if mat:
            if stack and not (len(stack) == 1 and
                              stack[0]["space"] == "colours"):
                raise HarnessError("halo exchange inside a loop")
            field, suffix, depth = mat.group(1) + (mat.group(2) or ""), \
                mat.group(3), mat.group(4).strip()
            if guard and (guard[0] != field or guard[1] != depth):
                raise HarnessError(f"guard {guard} does not match exchange "
                                   f"{raw!r}")
            mode = {None: "sync", "_start": "start",
                    "_finish": "finish"}[suffix]
            events.append({"ev": "hx", "field": field, "depth": depth,
                           "guard": bool(guard), "mode": mode,
                           "in_colours": bool(stack)})
            continue
        if guard:
            raise HarnessError(f"unexpected statement in IF block: {raw!r}")
        mat = _DIRTY.match(low)
        if mat:
            if stack:
                raise HarnessError("set_dirty inside a loop")
            events.append({"ev": "dirty",
                           "field": mat.group(1) + (mat.group(2) or "")})
            continue
        mat = _CLEAN.match(low)
        if mat:
            if stack:
                raise HarnessError("set_clean inside a loop")
            events.append({"ev": "clean",
                           "field": mat.group(1) + (mat.group(2) or ""),
                           "depth": mat.group(3).strip()})
            continue
        mat = _DO.match(low)
        if mat:
            var = mat.group(1)
            parts = _split_top(mat.group(2))
            if len(parts) == 3 and parts[2] != "1":
                raise HarnessError(f"loop step {parts[2]!r}")
            if len(parts) not in (2, 3):
                raise HarnessError(f"cannot parse loop {raw!r}")
            lower = bounds.get(parts[0], parts[0])
            if lower != "1":
                raise HarnessError(f"loop lower bound {lower!r}")
            upper = parts[1]
            cmat = re.fullmatch(
                r"last_(halo|edge)_cell_all_colours\(colour(?:\s*,\s*(.*))?\)",
                upper)
            if cmat:
                if not stack or stack[-1]["space"] != "colours":
                    raise HarnessError("colour loop outside colours loop")
                if cmat.group(1) == "edge":
                    info = ("cell", "edge", None)
                else:
                    if cmat.group(2) is None:
                        raise HarnessError(f"colour bound {upper!r}")
                    info = ("cell", "halo", cmat.group(2).strip())
                coloured = True
            else:
                if upper not in bounds:
                    raise HarnessError(f"unknown loop bound {upper!r}")
                info = _bound_of(bounds[upper])
                coloured = False
            expect = {"cell": "cell", "dof": "df", "colours": "colour"}
            if expect[info[0]] != var:
                raise HarnessError(f"loop variable {var!r} with bound "
                                   f"{info}")
            stack.append({"space": info[0], "bound": info[1],
                          "depth": info[2], "coloured": coloured,
                          "calls": []})
            continue
        if re.match(r"end\s*do$", low):
            if not stack:
                raise HarnessError("END DO without DO")
            loop = stack.pop()
            if loop["space"] == "colours":
                continue
            if stack and stack[-1]["space"] != "colours":
                raise HarnessError("unexpected loop nest")
            if not loop["calls"]:
                raise HarnessError("loop without kernel call")
            events.append(dict(loop, ev="loop"))
            continue
        mat = _ASSIGN.match(low)
        if mat:
            if not stack or stack[-1]["space"] != "dof":
                raise HarnessError(f"assignment outside a dof loop: {raw!r}")
            rhs = re.findall(r"(\w+)_data\(df\)", mat.group(2))
            stack[-1]["calls"].append({"kind": "builtin",
                                       "lhs": mat.group(1), "rhs": rhs})
            continue
        mat = _CALL.match(low)
        if mat and "%" not in mat.group(1):
            if not stack or stack[-1]["space"] != "cell":
                raise HarnessError(f"kernel call outside a cell loop: "
                                   f"{raw!r}")
            flds = []
            for item in _split_top(mat.group(2)):
                fmat = re.fullmatch(r"(\w+)_data", item)
                if fmat:
                    flds.append(fmat.group(1))
            stack[-1]["calls"].append({"kind": "kern", "name": mat.group(1),
                                       "fields": flds})
            names.add(mat.group(1))
            continue
        raise HarnessError(f"unparsed statement in PSy layer: {raw!r}")
    if stack or guard:
        raise HarnessError("unterminated block in PSy layer")
    return events


# --------------------------------------------------------------------------
# binding events to the harness's own records
# --------------------------------------------------------------------------
def bind(events, spec):
    """Attach the record index (`call["rec"]`) of the generator's record to
    every kernel / built-in call of the events; every call of the spec must
    occur exactly once."""
    recs = G.call_records(spec)
    free = list(range(len(recs)))
    for evt in events:
        if evt["ev"] != "loop":
            continue
        for call in evt["calls"]:
            found = None
            for idx in free:
                rec = recs[idx]
                names = []
                for arg in rec["args"]:
                    size = G.vector_size(spec, arg["f"])
                    if size > 1:
                        names += [f"f{arg['f']}_{c}"
                                  for c in range(1, size + 1)]
                    else:
                        names.append(f"f{arg['f']}")
                if call["kind"] == "kern" and rec["kind"] == "kern":
                    if rec["name"] == call["name"]:
                        if names != call["fields"]:
                            raise HarnessError(
                                f"kernel {call['name']} is called with "
                                f"fields {call['fields']}, expected {names}")
                        found = idx
                        break
                elif call["kind"] == "builtin" and rec["kind"] == "builtin":
                    reads = set(names[1:])
                    if rec["args"][0]["acc"] != "gh_write":
                        reads.add(names[0])
                    if names[0] == call["lhs"] and \
                            reads == set(call["rhs"]) and \
                            _builtin_shape(rec["name"]) == len(call["rhs"]):
                        found = idx
                        break
            if found is None:
                raise HarnessError(f"no record matches the call {call}")
            free.remove(found)
            call["rec"] = found
    if free:
        raise HarnessError(f"calls {free} of the spec do not appear in the "
                           f"generated code")
    return recs


def _builtin_shape(name):
    return {"setval_c": 0, "setval_x": 1, "x_plus_y": 2, "inc_x_plus_y": 2,
            "inc_a_times_x": 1}[name]


# --------------------------------------------------------------------------
# requirement / effect rules
# --------------------------------------------------------------------------
def loop_level(evt, env):
    """(space, L): L = halo depth reached by the loop; for dof loops
    L = -1 (owned), 0 (annexed) or d (dof_halo(d))."""
    if evt["bound"] == "halo":
        if evt["depth"] is None:
            depth = env["max_halo_depth_mesh"]
        else:
            depth = eval_depth(evt["depth"], env)
        return evt["space"], depth
    if evt["space"] == "cell":
        return "cell", 0
    return "dof", (-1 if evt["bound"] == "owned" else 0)


def annexed_exception(rec):
    """Developer guide, 'First Creation' case 2: a kernel whose updates all
    have GH_WRITE access and that modifies a continuous field does not
    access annexed DoFs.  Case 3 (and 'Dof iterators' case 4) say that
    loops that *modify a discontinuous field* do read the annexed DoFs of
    continuous fields, so the exception is not granted when an updated
    argument is declared on a discontinuous space."""
    upd = [a for a in rec["args"] if a["acc"] != "gh_read"]
    if any(a["acc"] != "gh_write" for a in upd):
        return False
    return not any(G.meta_class(a["meta"]) == "disc" for a in upd)


def requirements(rec, space, level, cont):
    """[(field index, needed truth value, reason)] of one call.
    cont[f]: actual continuity of field f."""
    res = []
    for arg in rec["args"]:
        acc, fld = arg["acc"], arg["f"]
        if acc == "gh_write":
            continue
        if space == "dof":
            if level < 0:
                continue                      # owned DoFs only
            if level == 0:
                if cont[fld]:
                    res.append((fld, 0, "annexed_dof",
                                "annexed DoFs read in a loop to "
                                "last_dof_annexed"))
                continue
            res.append((fld, level, "dofhalo",
                        f"read in a loop to dof_halo({level})"))
            continue
        if arg["stencil"]:
            res.append((fld, level + arg["extent"], "stencil",
                        f"stencil({arg['stencil']}) extent "
                        f"{arg['extent']} in a loop to depth {level}"))
        elif level >= 1:
            if acc == "gh_inc":
                need = level - 1
                if need >= 1 or cont[fld]:
                    res.append((fld, need, "gh_inc",
                                f"gh_inc in a loop to depth {level}"))
            else:
                res.append((fld, level, acc,
                            f"{acc} in a loop to depth {level}"))
        else:
            if cont[fld] and not annexed_exception(rec):
                res.append((fld, 0, "annexed_cell",
                            f"annexed DoFs of a continuous field "
                            f"({acc}) in a loop over owned cells"))
    return res


def effect_of(arg, space, level, is_cont, old):
    """New truth value of one (component of a) field written through `arg`
    (its truth was `old`); None = outside the model (continuous increment
    in an owned-cell loop)."""
    acc = arg["acc"]
    rmw = acc != "gh_write"
    if space == "dof":
        if level < 0:
            new = -1 if is_cont else 0
        elif level == 0:
            new = min(0, old) if rmw else 0
        else:
            new = min(level, old) if rmw else level
    elif is_cont:
        if acc == "gh_write":
            new = level
        elif level >= 1:
            new = min(level - 1, old)
        else:
            return None
    else:
        new = min(level, old) if rmw else level
    if not is_cont:
        new = max(new, 0)
    return new


def state_slots(spec):
    """State slots: one per field, one per component of a field vector.
    Returns ([(field, component or 0)], {name in generated code: slot})."""
    slots, names = [], {}
    for fld in range(len(spec["fields"])):
        size = G.vector_size(spec, fld)
        if size > 1:
            for comp in range(1, size + 1):
                names[f"f{fld}({comp})"] = len(slots)
                slots.append((fld, comp))
        else:
            names[f"f{fld}"] = len(slots)
            slots.append((fld, 0))
    return slots, names


class DomainError(Exception):
    """The generated code cannot run on a mesh of this halo depth (a depth
    argument outside 1..M): not a case of the property."""


def admissible(events, recs, spec, mesh_depth):
    """None if every depth argument of the generated code and every access
    of a kernel stays within a halo of depth `mesh_depth`; else
    ("deep", reason) when a deeper mesh is needed or ("zero", reason) when
    a halo exchange / is_dirty depth is below 1 (field_parent_mod indexes
    halo_dirty(depth))."""
    env = dict(spec.get("extents", {}))
    env["max_halo_depth_mesh"] = mesh_depth
    cont = [G.is_continuous_space(s) for s in spec["fields"]]
    for evt in events:
        if evt["ev"] == "hx":
            dep = eval_depth(evt["depth"], env)
            if dep < 1:
                return ("zero", f"halo exchange of {evt['field']} with "
                                f"depth={evt['depth']} = {dep}")
            if dep > mesh_depth:
                return ("deep", f"halo exchange depth {dep}")
        elif evt["ev"] == "clean":
            dep = eval_depth(evt["depth"], env)
            if not 0 <= dep <= mesh_depth:
                return ("deep", f"set_clean depth {dep}")
        elif evt["ev"] == "loop":
            space, level = loop_level(evt, env)
            if evt["bound"] == "halo" and not 1 <= level <= mesh_depth:
                return ("deep", f"loop depth {level}")
            for call in evt["calls"]:
                for _, need, _, _ in requirements(recs[call["rec"]], space,
                                                  level, cont):
                    if need > mesh_depth:
                        return ("deep", f"access to depth {need}")
    return None


def execute(events, recs, spec, mesh_depth, init):
    """Run the events from the initial state `init` (list of flag values
    k0 per field, truth = flags; k0 = 0 on a continuous field means annexed
    DoFs incorrect unless COMPUTE_ANNEXED_DOFS).  Returns None or
    (check id, message)."""
    # pylint: disable=too-many-locals, too-many-branches, too-many-statements
    # pylint: disable=too-many-return-statements
    env = dict(spec.get("extents", {}))
    env["max_halo_depth_mesh"] = mesh_depth
    fcont = [G.is_continuous_space(s) for s in spec["fields"]]
    annexed_cfg = bool(spec["annexed"])
    # one state slot per field / per component of a field vector
    slots, slot_of = state_slots(spec)
    nslot = len(slots)
    cont = [fcont[f] for f, _ in slots]
    flags = list(init)
    truth = []
    for slot in range(nslot):
        if init[slot] == 0 and cont[slot] and not annexed_cfg:
            truth.append(-1)
        else:
            truth.append(init[slot])

    def label(slot):
        fld, comp = slots[slot]
        return f"f{fld}({comp})" if comp else f"f{fld}"
    inflight = {}      # field -> (depth, executed)
    pending = set()    # fields written since their flags were last checked
    in_region = 0

    def fidx(name):
        if name not in slot_of:
            raise HarnessError(f"unknown field {name!r} in generated code")
        return slot_of[name]

    def fslots(fld):
        return [i for i, (f, _) in enumerate(slots) if f == fld]

    def check_flags(where):
        for slot in sorted(pending):
            if flags[slot] > max(truth[slot], 0):
                return ("b:flags", f"after the loop(s) before {where}: field "
                        f"{label(slot)} is flagged clean to depth "
                        f"{flags[slot]} but is only correct to depth "
                        f"{max(truth[slot], 0)}")
        pending.clear()
        return None

    for num, evt in enumerate(events):
        kind = evt["ev"]
        if kind in ("dirty", "clean"):
            slot = fidx(evt["field"])
            if slot in inflight:
                return ("c:pairing", f"flags of {label(slot)} changed "
                        f"between halo_exchange_start and _finish "
                        f"(event {num})")
            if kind == "dirty":
                flags[slot] = 0
            else:
                flags[slot] = max(flags[slot],
                                  eval_depth(evt["depth"], env))
            continue
        if kind == "region":
            if evt["what"] == "begin":
                fail = check_flags("a parallel region")
                if fail:
                    return fail
                in_region += 1
            else:
                in_region -= 1
            continue
        if kind == "hx":
            fail = check_flags("a halo exchange")
            if fail:
                return fail
            slot = fidx(evt["field"])
            name = label(slot)
            dep = eval_depth(evt["depth"], env)
            if not 1 <= dep <= mesh_depth:
                raise DomainError(f"exchange depth {dep}")
            if evt.get("in_colours"):
                # The exchange is repeated for every colour.  With a
                # run-time guard only the first repetition can execute (the
                # flags are not updated inside the loop); an unguarded one
                # re-exchanges the field between the colours.
                nxt = next(e for e in events[num:] if e["ev"] == "loop")
                written = {a["f"] for c in nxt["calls"]
                           for a in recs[c["rec"]]["args"]
                           if a["acc"] != "gh_read"}
                if not evt["guard"] and slots[slot][0] in written:
                    return ("c:exchange_in_colours_loop",
                            f"unconditional halo exchange of {name} inside "
                            f"the loop over colours that updates {name}: "
                            f"the partially updated field is exchanged "
                            f"between colours")
            run = (not evt["guard"]) or dep > flags[slot]
            if evt["mode"] == "sync":
                if slot in inflight:
                    return ("c:pairing", f"halo exchange of {name} while an "
                            f"asynchronous one is in flight")
                if run:
                    flags[slot] = max(flags[slot], dep)
                    truth[slot] = max(truth[slot], dep)
            elif evt["mode"] == "start":
                if slot in inflight:
                    return ("c:pairing",
                            f"second halo_exchange_start of {name}")
                inflight[slot] = (dep, run)
            else:
                if slot not in inflight:
                    return ("c:pairing", f"halo_exchange_finish of {name} "
                            f"without start")
                dep0, run0 = inflight.pop(slot)
                if dep0 != dep or run0 != run:
                    return ("c:pairing", f"halo_exchange_finish of {name} "
                            f"(depth {dep}, executed {run}) does not match "
                            f"its start (depth {dep0}, executed {run0})")
                if run:
                    flags[slot] = max(flags[slot], dep)
                    truth[slot] = max(truth[slot], dep)
            continue
        # ---- loop ------------------------------------------------------
        if not in_region:
            fail = check_flags("the next loop")
            if fail:
                return fail
        space, level = loop_level(evt, env)
        if evt["bound"] == "halo" and not 1 <= level <= mesh_depth:
            raise DomainError(f"loop depth {level}")
        for call in evt["calls"]:
            rec = recs[call["rec"]]
            for fld, need, key, why in requirements(rec, space, level,
                                                    fcont):
                if need > mesh_depth:
                    raise DomainError(f"access to depth {need}")
                for slot in fslots(fld):
                    if truth[slot] >= need:
                        continue
                    have = ("dirty (annexed DoFs incorrect)"
                            if truth[slot] < 0 else
                            "dirty (annexed DoFs correct)"
                            if truth[slot] == 0 else
                            f"correct to depth {truth[slot]}")
                    want = ("correct annexed DoFs" if need == 0 else
                            f"a halo correct to depth {need}")
                    return ("a:" + key,
                            f"{rec['name']} needs {want} of {label(slot)} "
                            f"({why}) but the halo is {have}")
            for arg in rec["args"]:
                if arg["acc"] == "gh_read":
                    continue
                for slot in fslots(arg["f"]):
                    if slot in inflight:
                        return ("c:write_in_flight",
                                f"{rec['name']} writes {label(slot)} between "
                                f"halo_exchange_start and _finish")
        for call in evt["calls"]:
            rec = recs[call["rec"]]
            for arg in rec["args"]:
                if arg["acc"] == "gh_read":
                    continue
                for slot in fslots(arg["f"]):
                    new = effect_of(arg, space, level, cont[slot],
                                    truth[slot])
                    if new is None:
                        return ("a:inc_owned",
                                f"{rec['name']} increments the continuous "
                                f"field {label(slot)} in a loop over owned "
                                f"cells only")
                    truth[slot] = new
                    pending.add(slot)
    if inflight:
        return ("c:pairing", f"halo_exchange_start of "
                f"{[label(s) for s in sorted(inflight)]} without finish")
    pending.update(range(nslot))
    fail = check_flags("the end of the invoke")
    if fail:
        return fail
    if annexed_cfg:
        for slot in range(nslot):
            if cont[slot] and truth[slot] < 0:
                return ("b:annexed_invariant",
                        f"COMPUTE_ANNEXED_DOFS: annexed DoFs of "
                        f"{label(slot)} are incorrect at the end of the "
                        f"invoke")
    return None


def initial_states(nfld, mesh_depth, limit, seed):
    """All (mesh_depth+1)**nfld initial states if there are at most `limit`,
    else the per-field sweeps plus a deterministic sample (affine walk of
    the index space, parameters from `seed`)."""
    base = mesh_depth + 1
    total = base ** nfld

    def decode(idx):
        out = []
        for _ in range(nfld):
            out.append(idx % base)
            idx //= base
        return out

    if total <= limit:
        return [decode(i) for i in range(total)], True
    states = []
    for fld in range(nfld):
        for val in range(base):
            for other in (0, mesh_depth):
                state = [other] * nfld
                state[fld] = val
                states.append(state)
    step = 2 * (seed % (total // 2)) + 1
    while _gcd(step, total) != 1:
        step += 2
    start = (seed * 7919) % total
    for i in range(limit):
        states.append(decode((start + i * step) % total))
    return states, False


def _gcd(left, right):
    while right:
        left, right = right, left % right
    return left
