"""Helpers of property C11 (variable access information).

* TraceInterp: the shared tracing interpreter extended (in a subclass, the
  shared module is untouched) with
    - attribution of callee events to the calling statement of the routine
      under test (event index spans),
    - derived-type components (storage per component path "s%v"),
    - intrinsic subroutines, executed from a table transcribed from the
      Fortran standard (which dummy arguments are defined),
    - ALLOCATE / DEALLOCATE / MOVE_ALLOC of local allocatable arrays,
    - READ / PRINT / WRITE CodeBlocks (items re-parsed as PSyIR expressions).
* statement templates appended to gen_fortran programs (the statement forms
  of the C11 domain that the shared grammar does not produce),
* the oracle: dynamic trace  subset-of  static VariablesAccessInfo, and the
  ordering clause for assignments.
"""
from __future__ import annotations

import re
from fractions import Fraction

from hypothesis import strategies as st

from psyclone.psyir import nodes as N
from psyclone.psyir.nodes.array_mixin import ArrayMixin
from psyclone.psyir.symbols import (ArrayType, DataTypeSymbol, ScalarType,
                                    StructureType)

from vlib import gen_fortran as gf
from vlib import interp as I
from vlib import psy

# ----------------------------------------------------------------------
# Fortran 2008 section 13.7: intrinsic SUBROUTINES and the intent of their
# dummy arguments (hand transcribed; 'out'/'inout' = the call defines it).
# ----------------------------------------------------------------------
INTRINSIC_SUBS = {
    "random_number": [("harvest", "out")],
    "cpu_time": [("time", "out")],
    "system_clock": [("count", "out"), ("count_rate", "out"),
                     ("count_max", "out")],
    "date_and_time": [("date", "out"), ("time", "out"), ("zone", "out"),
                      ("values", "out")],
    "mvbits": [("from", "in"), ("frompos", "in"), ("len", "in"),
               ("to", "inout"), ("topos", "in")],
    "random_seed": [("size", "out"), ("put", "in"), ("get", "out")],
    "move_alloc": [("from", "inout"), ("to", "out"), ("stat", "out"),
                   ("errmsg", "inout")],
}
# ALLOCATE / DEALLOCATE statements: the allocate-objects change their
# allocation status (and become undefined), STAT= / ERRMSG= are defined.
ALLOC_WRITTEN_KEYWORDS = ("stat", "errmsg")


def call_name(node):
    if isinstance(node, N.IntrinsicCall):
        return node.intrinsic.name.lower()
    return node.routine.name.lower()


def map_intrinsic_args(name, node):
    """[(dummy, intent, arg node)] for a call of a table intrinsic."""
    spec = INTRINSIC_SUBS[name]
    order = [d for d, _ in spec]
    intents = dict(spec)
    out = []
    pos = 0
    for nam, arg in zip(node.argument_names, node.arguments):
        if nam is None:
            if pos >= len(order):
                raise I.InterpError(f"too many arguments to {name}")
            dummy = order[pos]
            pos += 1
        else:
            dummy = nam.lower()
            if dummy not in intents:
                raise I.InterpError(f"{name} has no dummy {nam}")
        out.append((dummy, intents[dummy], arg))
    return out


def root_name(ref):
    """Lower-case signature text of a Reference, computed independently of
    PSyclone's Signature code: 'a', 's%v', 'sa%in%iv'."""
    names = [ref.symbol.name.lower()]
    cur = ref
    while isinstance(cur, (N.StructureReference, N.StructureMember)):
        cur = cur.member
        names.append(cur.name.lower())
    return "%".join(names)


def written_by_standard(stmt):
    """Names (signature text) that the Fortran standard says the intrinsic
    statement `stmt` (intrinsic subroutine call, ALLOCATE, DEALLOCATE)
    defines; empty for anything else."""
    if not isinstance(stmt, N.Call):
        return set()
    name = call_name(stmt)
    out = set()
    if isinstance(stmt, N.IntrinsicCall) and name in ("allocate",
                                                     "deallocate"):
        for nam, arg in zip(stmt.argument_names, stmt.arguments):
            if nam is None or nam.lower() in ALLOC_WRITTEN_KEYWORDS:
                if isinstance(arg, N.Reference):
                    out.add(root_name(arg))
        return out
    if name in INTRINSIC_SUBS:
        try:
            mapped = map_intrinsic_args(name, stmt)
        except I.InterpError:
            return out
        for _, intent, arg in mapped:
            if intent != "in" and isinstance(arg, N.Reference):
                out.add(root_name(arg))
    return out


def convert_intrinsic_calls(tree):
    """Replace the frontend's generic `Call` nodes of table intrinsics by
    IntrinsicCall nodes built through the public API
    (IntrinsicCall.create). Returns the number of conversions."""
    done = 0
    defined = {r.name.lower() for r in tree.walk(N.Routine)}
    for call in tree.walk(N.Call):
        if isinstance(call, N.IntrinsicCall):
            continue
        name = call.routine.name.lower()
        if name not in INTRINSIC_SUBS or name in defined:
            continue
        intr = getattr(N.IntrinsicCall.Intrinsic, name.upper(), None)
        if intr is None:
            continue
        try:
            mapped = map_intrinsic_args(name, call)
        except I.InterpError:
            continue
        maxpos = intr.required_args.max_count or 0
        args = []
        for pos, (dummy, _, arg) in enumerate(mapped):
            if pos < maxpos and call.argument_names[pos] is None:
                args.append(arg.copy())
            else:
                args.append((dummy, arg.copy()))
        try:
            new = N.IntrinsicCall.create(intr, args)
        except (TypeError, ValueError):
            continue
        call.replace_with(new)
        done += 1
    return done


# ----------------------------------------------------------------------
# interpreter
# ----------------------------------------------------------------------
class TraceInterp(I.Interp):
    def __init__(self, root, max_steps=60000):
        super().__init__(root, trace=True, max_steps=max_steps)
        self.depth = 0
        self.spans = []            # (first event, end event, top statement)
        self.extra_names = {}      # Arr id -> name (allocatables)
        self.expr_cache = {}
        self.executed = set()      # ids of executed statements (depth 1)
        self.type_hooks[N.Call] = TraceInterp.h_call
        self.type_hooks[N.CodeBlock] = TraceInterp.h_codeblock

    def exec(self, node, frame):
        if self.depth == 1:
            self.executed.add(id(node))
        return super().exec(node, frame)

    # ---- calls: spans + structure actuals -----------------------------
    def call_routine(self, callee, actuals, want_result=False):
        self.depth += 1
        start = len(self.events)
        top = self.stmt
        try:
            return super().call_routine(callee, actuals, want_result)
        finally:
            self.depth -= 1
            if self.depth == 1:
                self.spans.append((start, len(self.events), top))

    def do_call(self, node, frame, want_result=False):
        # copy of Interp.do_call accepting structure references as
        # by-reference actual arguments
        if isinstance(node, N.IntrinsicCall):
            return self.e_intrinsic(node, frame)
        name = node.routine.name.lower()
        callee = self.routines.get(name)
        if callee is None:
            raise I.Unsupported(f"call to unknown routine {name}")
        formals = callee.symbol_table.argument_list
        actual_nodes = [None] * len(formals)
        pos = 0
        fnames = [f.name.lower() for f in formals]
        for nam, arg in zip(node.argument_names, node.arguments):
            if nam is None:
                if pos >= len(formals):
                    raise I.InterpError("too many actual arguments")
                actual_nodes[pos] = arg
                pos += 1
            else:
                if nam.lower() not in fnames:
                    raise I.InterpError(f"no dummy named {nam}")
                actual_nodes[fnames.index(nam.lower())] = arg
        if any(a is None for a in actual_nodes):
            raise I.Unsupported("optional / missing arguments")
        actuals = []
        for arg in actual_nodes:
            if type(arg) in (N.Reference, N.ArrayReference) or \
                    isinstance(arg, N.StructureReference):
                actuals.append(self.ref_obj(arg, frame))
            else:
                val = self.eval(arg, frame)
                actuals.append(self.temp_from_value(val))
        return self.call_routine(callee, actuals, want_result)

    # ---- derived types --------------------------------------------------
    def struct_chain(self, node, frame):
        """(names, bounds, index nodes/None per dim, leaf datatype)."""
        names, dims, idx = [], [], []
        dtype = node.symbol.datatype
        name = node.symbol.name
        cur = node
        while True:
            names.append(name.lower())
            if isinstance(dtype, ArrayType):
                bnds = []
                for dim in dtype.shape:
                    if not isinstance(dim, ArrayType.ArrayBounds):
                        raise I.Unsupported("deferred shape in structure")
                    bnds.append((self.eval_int(dim.lower, frame),
                                 self.eval_int(dim.upper, frame)))
                if isinstance(dtype.intrinsic, DataTypeSymbol):
                    elem = dtype.intrinsic
                else:
                    elem = ScalarType(dtype.intrinsic, dtype.precision)
            else:
                bnds = []
                elem = dtype
            if isinstance(cur, ArrayMixin):
                indices = list(cur.indices)
                if len(indices) != len(bnds):
                    raise I.InterpError(f"rank mismatch in {name}")
                idx.extend(indices)
            else:
                idx.extend([None] * len(bnds))
            dims.extend(bnds)
            if isinstance(cur, (N.StructureReference, N.StructureMember)):
                stype = elem.datatype if isinstance(elem, DataTypeSymbol) \
                    else elem
                if not isinstance(stype, StructureType):
                    raise I.Unsupported(f"type of {name} is not resolved")
                member = cur.member
                comp = None
                for cname, cmp_ in stype.components.items():
                    if cname.lower() == member.name.lower():
                        comp = cmp_
                if comp is None:
                    raise I.Unsupported(f"no component {member.name}")
                dtype = comp.datatype
                name = member.name
                cur = member
            else:
                return names, dims, idx, elem

    def struct_view(self, node, frame):
        names, dims, idx, leaf = self.struct_chain(node, frame)
        if isinstance(leaf, DataTypeSymbol) or \
                isinstance(leaf, StructureType):
            raise I.Unsupported("reference to a whole structure")
        sym = node.symbol
        if sym.is_argument or sym.is_import or sym.is_unresolved:
            raise I.Unsupported("structure that is not a local variable")
        path = "%".join(names)
        base = frame.vars.get(path)
        if base is None:
            base = I.Arr(self.typ_of(leaf), dims, name=path,
                         bits=self.bits_of(leaf))
            frame.vars[path] = base
        from psyclone.psyir.symbols import INTEGER_TYPE
        nodes = []
        for one, (lbd, ubd) in zip(idx, dims):
            if one is None:
                one = N.Range.create(N.Literal(str(lbd), INTEGER_TYPE),
                                     N.Literal(str(ubd), INTEGER_TYPE))
            nodes.append(one)
        if not nodes:
            return base
        return self.section_view(base, nodes, frame, node)

    def ref_obj(self, node, frame):
        if isinstance(node, N.StructureReference):
            return self.struct_view(node, frame)
        return super().ref_obj(node, frame)

    def _inq_obj(self, arg, frame):
        if isinstance(arg, N.StructureReference):
            return self.struct_view(arg, frame)
        return super()._inq_obj(arg, frame)

    def e_struct(self, node, frame):
        view = self.struct_view(node, frame)
        if not view.bounds:
            return self.load(view, 0)
        return I.AVal(view.shape, [self.load(view, i)
                                   for i in range(view.size)])

    def x_assignment(self, node, frame):
        lhs = node.lhs
        if not isinstance(lhs, N.StructureReference):
            return super().x_assignment(node, frame)
        rhs = self.eval(node.rhs, frame)
        view = self.struct_view(lhs, frame)
        if isinstance(rhs, I.AVal):
            if rhs.shape != view.shape:
                raise I.InterpError("shape mismatch in structure assignment")
            for pos, val in enumerate(rhs.data):
                self.store(view, pos, val)
        else:
            for pos in range(view.size):
                self.store(view, pos, rhs)
        return None

    # ---- hooks ------------------------------------------------------------
    def h_call(self, node, frame):
        name = call_name(node)
        special = None
        if isinstance(node, N.IntrinsicCall) and name in ("allocate",
                                                         "deallocate"):
            special = self.do_alloc
        elif name in INTRINSIC_SUBS and name not in self.routines:
            special = self.do_intrinsic_sub
        if special is None:
            return self.exec_nohook(node, frame)
        saved = self.stmt
        self.stmt = node
        try:
            return special(node, frame, name)
        finally:
            self.stmt = saved

    @staticmethod
    def default_value(typ):
        return {"int": 1, "real": Fraction(1, 2), "log": True}[typ]

    def define(self, arg, frame, value=None):
        """Define every element of the object designated by `arg`."""
        if not isinstance(arg, N.Reference):
            raise I.InterpError("non-variable associated with an "
                                "intent(out) dummy")
        obj = self.ref_obj(arg, frame)
        val = self.default_value(obj.typ) if value is None else value
        for pos in range(obj.size):
            self.store(obj, pos, val)

    def name_event(self, kind, name):
        self.events.append((kind, ("n", name.lower()), -1, self.stmt,
                            self.loops))

    def do_intrinsic_sub(self, node, frame, name):
        mapped = map_intrinsic_args(name, node)
        if name == "move_alloc":
            return self.do_move_alloc(mapped, frame)
        if name == "mvbits":
            args = {d: a for d, _, a in mapped}
            if len(args) != 5:
                raise I.InterpError("MVBITS needs 5 arguments")
            frm = self.eval_int(args["from"], frame)
            fpos = self.eval_int(args["frompos"], frame)
            length = self.eval_int(args["len"], frame)
            tpos = self.eval_int(args["topos"], frame)
            if min(fpos, length, tpos) < 0 or fpos + length > 31 or \
                    tpos + length > 31:
                raise I.OutOfDomain("MVBITS positions")
            obj = self.ref_obj(args["to"], frame)
            if obj.size != 1:
                raise I.Unsupported("array MVBITS")
            old = self.load(obj, 0)
            if old is I.POISON:
                raise I.PoisonRead("MVBITS of undefined TO")
            mask = ((1 << length) - 1) << tpos
            new = (old & ~mask) | (((frm >> fpos) << tpos) & mask)
            self.store(obj, 0, new)
            return None
        for _, intent, arg in mapped:
            if intent == "in":
                self.eval(arg, frame)
            elif intent == "out":
                self.define(arg, frame)
            else:
                obj = self.ref_obj(arg, frame)
                for pos in range(obj.size):
                    self.store(obj, pos, self.load(obj, pos))
        return None

    def do_move_alloc(self, mapped, frame):
        args = {d: a for d, _, a in mapped}
        src, dst = args.get("from"), args.get("to")
        if type(src) is not N.Reference or type(dst) is not N.Reference:
            raise I.Unsupported("MOVE_ALLOC arguments")
        skey, dkey = src.symbol.name.lower(), dst.symbol.name.lower()
        if skey not in frame.vars:
            raise I.Unsupported("MOVE_ALLOC of unallocated array")
        old = frame.vars.pop(skey)
        new = I.Arr(old.typ, old.bounds, data=old.root.data, name=dkey,
                    bits=old.bits)
        frame.vars[dkey] = new
        self.extra_names[new.id] = dkey
        self.name_event("R", skey)
        self.name_event("W", skey)
        self.name_event("W", dkey)
        if "stat" in args:
            self.define(args["stat"], frame, 0)
        return None

    def do_alloc(self, node, frame, name):
        objs, extra = [], {}
        for nam, arg in zip(node.argument_names, node.arguments):
            if nam is None:
                objs.append(arg)
            else:
                extra[nam.lower()] = arg
        if set(extra) - {"stat", "source", "mold"}:
            raise I.Unsupported(f"{name} with {sorted(extra)}")
        if name == "deallocate":
            for arg in objs:
                if type(arg) is not N.Reference:
                    raise I.Unsupported("DEALLOCATE of a component")
                key = arg.symbol.name.lower()
                if key not in frame.vars:
                    raise I.Unsupported("DEALLOCATE of unallocated array")
                del frame.vars[key]
                self.name_event("W", key)
            if "stat" in extra:
                self.define(extra["stat"], frame, 0)
            return None
        srcval = None
        if "source" in extra:
            srcval = self.eval(extra["source"], frame)
        moldshape = None
        if "mold" in extra:
            moldshape = self._inq_obj(extra["mold"], frame).shape
        for arg in objs:
            if type(arg) is N.ArrayReference:
                bounds = []
                for idx in arg.indices:
                    if isinstance(idx, N.Range):
                        bounds.append((self.eval_int(idx.start, frame),
                                       self.eval_int(idx.stop, frame)))
                    else:
                        bounds.append((1, self.eval_int(idx, frame)))
            elif type(arg) is N.Reference:
                if isinstance(srcval, I.AVal):
                    bounds = [(1, e) for e in srcval.shape]
                elif moldshape is not None:
                    bounds = [(1, e) for e in moldshape]
                else:
                    raise I.Unsupported("ALLOCATE without shape")
            else:
                raise I.Unsupported("ALLOCATE of a component")
            sym = arg.symbol
            key = sym.name.lower()
            if key in frame.vars or sym.is_argument:
                raise I.Unsupported("ALLOCATE of allocated array / dummy")
            arr = I.Arr(self.typ_of(sym.datatype), bounds, name=sym.name,
                        bits=self.bits_of(sym.datatype))
            if srcval is not None:
                if isinstance(srcval, I.AVal):
                    if srcval.shape != arr.shape:
                        raise I.InterpError("SOURCE= shape mismatch")
                    arr.data = [self.conv(arr.typ, v) for v in srcval.data]
                else:
                    arr.data = [self.conv(arr.typ, srcval)] * arr.size
            frame.vars[key] = arr
            self.extra_names[arr.id] = key
            self.name_event("W", key)
        if "stat" in extra:
            self.define(extra["stat"], frame, 0)
        return None

    # ---- CodeBlocks: EXIT / CYCLE / simple list-directed I/O ---------------
    def parse_expr(self, node, text):
        key = (id(node), text)
        expr = self.expr_cache.get(key)
        if expr is None:
            from psyclone.psyir.frontend.fortran import FortranReader
            expr = FortranReader().psyir_from_expression(
                text, node.scope.symbol_table)
            self.expr_cache[key] = expr
        return expr

    def e_codeblock(self, node, frame):
        """Expression CodeBlock: fparser matches `f(1.0, x)` (first actual
        a literal constant) as a Structure_Constructor, which the frontend
        keeps as a CodeBlock; when `f` is a routine of the module it is a
        function reference and is executed as such."""
        from fparser.two import Fortran2003 as F
        asts = node.get_ast_nodes
        if len(asts) != 1 or not isinstance(asts[0], F.Structure_Constructor):
            raise I.Unsupported("expression CodeBlock")
        name = str(asts[0].items[0]).lower()
        if name not in self.routines:
            raise I.Unsupported("expression CodeBlock (constructor)")
        key = (id(node), "@call")
        call = self.expr_cache.get(key)
        if call is None:
            args = []
            for item in self.io_items(asts[0].items[1]):
                if isinstance(item, F.Component_Spec):
                    raise I.Unsupported("keyword in expression CodeBlock")
                args.append(self.parse_expr(node, str(item)).copy())
            sym = node.scope.symbol_table.lookup(name)
            call = N.Call.create(sym, args)
            self.expr_cache[key] = call
        return self.do_call(call, frame, want_result=True)

    @staticmethod
    def io_items(lst):
        if lst is None:
            return []
        if type(lst).__name__.endswith("_List"):
            return list(lst.items)
        return [lst]

    def h_codeblock(self, node, frame):
        from fparser.two import Fortran2003 as F
        saved = self.stmt
        self.stmt = node
        try:
            for ast in node.get_ast_nodes:
                if isinstance(ast, (F.Exit_Stmt, F.Cycle_Stmt)):
                    return I.Interp.x_codeblock(self, node, frame)
                if isinstance(ast, F.Print_Stmt):
                    outs, ins = self.io_items(ast.items[1]), []
                elif isinstance(ast, F.Write_Stmt):
                    if str(ast.items[0]).replace(" ", "") != "*,*":
                        raise I.Unsupported("WRITE control list")
                    outs, ins = self.io_items(ast.items[1]), []
                elif isinstance(ast, F.Read_Stmt):
                    ctl = ast.items[0] if ast.items[0] is not None \
                        else ast.items[1]
                    if str(ctl).replace(" ", "") not in ("*,*", "*"):
                        raise I.Unsupported("READ control list")
                    outs, ins = [], self.io_items(ast.items[2])
                else:
                    raise I.Unsupported(f"CodeBlock {type(ast).__name__}")
                for item in outs:
                    if isinstance(item, F.Char_Literal_Constant):
                        continue
                    if isinstance(item, F.Io_Implied_Do):
                        raise I.Unsupported("implied DO")
                    self.eval(self.parse_expr(node, str(item)), frame)
                for item in ins:
                    if isinstance(item, F.Io_Implied_Do):
                        raise I.Unsupported("implied DO")
                    self.define(self.parse_expr(node, str(item)), frame)
            return None
        finally:
            self.stmt = saved


TraceInterp._EVAL = dict(I.Interp._EVAL)
TraceInterp._EVAL[N.StructureReference] = TraceInterp.e_struct
TraceInterp._EVAL[N.ArrayOfStructuresReference] = TraceInterp.e_struct
TraceInterp._EVAL[N.CodeBlock] = TraceInterp.e_codeblock
TraceInterp._EXEC = dict(I.Interp._EXEC)
TraceInterp._EXEC[N.Assignment] = TraceInterp.x_assignment


# ----------------------------------------------------------------------
# oracle
# ----------------------------------------------------------------------
def statements_of(routine):
    """Statement nodes of `routine` (children of Schedules) in walk order."""
    return [n for n in routine.walk(N.Node)
            if n is not routine and isinstance(n.parent, N.Schedule)]


def form_of(stmt):
    """Class label (statement form) of a statement node."""
    if isinstance(stmt, N.Assignment):
        lhs = stmt.lhs
        if isinstance(lhs, N.StructureReference):
            form = "assign_struct"
        elif isinstance(lhs, N.ArrayReference):
            form = "assign_section" if any(isinstance(i, N.Range)
                                           for i in lhs.indices) \
                else "assign_elem"
        elif isinstance(lhs.datatype, ArrayType):
            form = "assign_whole_array"
        else:
            form = "assign_scalar"
        return form
    if isinstance(stmt, N.Loop):
        return "loop_where" if "was_where" in stmt.annotations else "loop"
    if isinstance(stmt, N.WhileLoop):
        return "while"
    if isinstance(stmt, N.IfBlock):
        for ann, lab in (("was_case", "if_select"), ("was_where", "if_where"),
                         ("was_single_stmt", "if_single")):
            if ann in stmt.annotations:
                return lab
        return "if"
    if isinstance(stmt, N.IntrinsicCall):
        name = call_name(stmt)
        if name in ("allocate", "deallocate"):
            return name
        return "intrinsiccall_api"
    if isinstance(stmt, N.Call):
        name = call_name(stmt)
        if name in INTRINSIC_SUBS:
            return "call_intrinsic_sub"
        return "call_user"
    if isinstance(stmt, N.CodeBlock):
        from fparser.two import Fortran2003 as F
        if any(isinstance(a, (F.Exit_Stmt, F.Cycle_Stmt))
               for a in stmt.get_ast_nodes):
            return "codeblock_exitcycle"
        return "codeblock_io"
    return type(stmt).__name__.lower()


def has_function_call(stmt):
    """Does the statement's own expressions contain a user function call?"""
    for call in stmt.walk(N.Call):
        if call is stmt or isinstance(call, N.IntrinsicCall):
            continue
        # nearest statement ancestor must be stmt itself
        anc = call.parent
        while anc is not None and not isinstance(anc.parent, N.Schedule):
            anc = anc.parent
        if anc is stmt:
            return True
    return False


def own_nodes(stmt, cls):
    """Nodes of class `cls` in the statement's own expressions (not in
    nested statements)."""
    out = []
    for node in stmt.walk(cls):
        if node is stmt:
            continue
        anc = node.parent
        while anc is not None and not isinstance(anc.parent, N.Schedule):
            anc = anc.parent
        if anc is stmt:
            out.append(node)
    return out


def cover_of(vai):
    """{lower-case signature text: [is read, is written]} of a
    VariablesAccessInfo."""
    from psyclone.core import AccessType
    reads = set(AccessType.all_read_accesses()) | {AccessType.UNKNOWN}
    writes = set(AccessType.all_write_accesses()) | {AccessType.UNKNOWN}
    out = {}
    for sig in vai.all_signatures:
        ent = out.setdefault(str(sig).lower(), [False, False])
        for acc in vai[sig].all_accesses:
            if acc.access_type in reads:
                ent[0] = True
            if acc.access_type in writes:
                ent[1] = True
    return out


def order_problem(assign, vai):
    """Ordering clause for one Assignment; message or None."""
    from psyclone.core import AccessType
    lhs = assign.lhs
    found = None
    for sig in vai.all_signatures:
        accs = vai[sig].all_accesses
        for pos, acc in enumerate(accs):
            if acc.node is lhs:
                if found is not None:
                    return "two accesses recorded for the LHS reference"
                found = (sig, pos, acc, accs)
    if found is None:
        return "no access recorded for the LHS reference"
    sig, pos, wacc, accs = found
    if wacc.access_type not in AccessType.all_write_accesses():
        return f"LHS access of {sig} has type {wacc.access_type}"
    if pos != len(accs) - 1:
        later = ",".join(str(a) for a in accs[pos + 1:])
        return (f"the LHS write {wacc} of {sig} is followed by {later} in "
                f"the access order of the statement ({vai[sig]})")
    for other in vai.all_signatures:
        for acc in vai[other].all_accesses:
            if acc.location > wacc.location:
                return (f"access {other}:{acc} is located after the LHS "
                        f"write {sig}:{wacc}")
    return None


class Analysis:
    """Result of analysing one program."""

    def __init__(self):
        self.stmts = []
        self.forms = []
        self.executed = set()      # statement indices
        self.nontrivial = set()    # executed with >= 1 read and >= 1 write
        self.failures = []         # dict(kind, stmt, form, missing, msg)
        self.discards = {}
        self.runs = 0
        self.converted = 0
        self.routine = None
        self.tree = None

    def discard(self, why):
        self.discards[why] = self.discards.get(why, 0) + 1


def run_trace(tree, prog, inp):
    """Execute and return {statement id: set((kind, name))} (innermost
    attribution, names of the routine under test's frame)."""
    itp = TraceInterp(tree)
    acts = I.make_actuals(prog, inp)
    itp.run(prog.subname, acts)
    frame = itp.last_frame
    names = dict(itp.extra_names)
    for nam, arr in itp.globals.items():
        names.setdefault(arr.id, nam)
    for nam, arr in frame.vars.items():
        names[arr.id] = nam
    spans = sorted(itp.spans)
    own = {}
    sidx = 0
    for pos, (kind, rid, _flat, stmt, _loops) in enumerate(itp.events):
        while sidx < len(spans) and spans[sidx][1] <= pos:
            sidx += 1
        if sidx < len(spans) and spans[sidx][0] <= pos:
            stmt = spans[sidx][2]
        if stmt is None:
            continue
        if isinstance(rid, tuple):
            name = rid[1]
        else:
            name = names.get(rid)
            if name is None:
                continue            # callee local / temporary
        own.setdefault(id(stmt), set()).add((kind, name))
    return own, itp.executed


def analyse(prog, api_intr=False, source=None):
    """Static + dynamic analysis of every statement of prog's routine.
    prog needs .subname, .args, .inputs (and .module_source unless `source`
    is given)."""
    from psyclone.core import VariablesAccessInfo
    res = Analysis()
    psy.reset_state()
    tree = psy.read(source if source is not None else prog.module_source)
    if api_intr:
        res.converted = convert_intrinsic_calls(tree)
    routine = psy.routine_of(tree, prog.subname)
    res.tree, res.routine = tree, routine
    stmts = statements_of(routine)
    res.stmts = stmts
    res.forms = [form_of(s) for s in stmts]
    units = stmts + [routine]
    index = {id(u): i for i, u in enumerate(units)}
    chains = {}
    for unit in stmts:
        chain = []
        par = unit.parent
        while par is not None:
            if id(par) in index:
                chain.append(index[id(par)])
            if par is routine:
                break
            par = par.parent
        chains[index[id(unit)]] = chain
    # ---- static ---------------------------------------------------------
    cover = {}
    vais = {}
    for pos, unit in enumerate(units):
        try:
            vai = VariablesAccessInfo(unit)
        except NotImplementedError:
            # documented limitation: same variable twice on a LHS
            cover[pos] = None
            res.discard("vai_not_implemented")
            continue
        except Exception as err:      # pylint: disable=broad-except
            cover[pos] = None
            res.discard("vai_exception:" + psy.exc_key(err))
            continue
        cover[pos] = cover_of(vai)
        vais[pos] = vai
        if isinstance(unit, N.Assignment):
            msg = order_problem(unit, vai)
            if msg:
                res.failures.append({
                    "kind": "order", "stmt": pos, "form": res.forms[pos],
                    "missing": None, "msg": msg})
    # ---- dynamic --------------------------------------------------------
    own = {}
    for inp in prog.inputs:
        try:
            one, ran = run_trace(tree, prog, inp)
        except (I.Unsupported, I.OutOfDomain) as err:
            res.discard("interp:" + type(err).__name__ + ":" +
                        re.sub(r"[^A-Za-z ]", "", str(err))[:24].strip())
            continue
        except I.InterpError as err:
            res.discard("interp_error:" + type(err).__name__)
            continue
        res.runs += 1
        res.executed.update(index[sid] for sid in ran if sid in index)
        for sid, items in one.items():
            if sid in index:
                own.setdefault(index[sid], set()).update(items)
    # needs of every unit: own items + items of all descendants
    need = {}
    origin = {}
    for pos, items in own.items():
        for tgt in [pos] + chains.get(pos, []):
            need.setdefault(tgt, set()).update(items)
            for item in items:
                origin.setdefault((tgt, item), set()).add(pos)
    for pos, items in need.items():
        kinds = {k for k, _ in items}
        if pos < len(stmts) and kinds >= {"R", "W"}:
            res.nontrivial.add(pos)

    def covered(pos, item):
        cov = cover.get(pos)
        if cov is None:
            return True            # no static information (discarded)
        ent = cov.get(item[1])
        return bool(ent and ent[0 if item[0] == "R" else 1])

    for pos in sorted(need):
        for item in sorted(need[pos]):
            if covered(pos, item):
                continue
            word = "read" if item[0] == "R" else "write"
            form = res.forms[pos] if pos < len(stmts) else "routine"
            if item in own.get(pos, ()):
                kind = "missing"
                where = ""
            else:
                srcs = sorted(origin[(pos, item)])
                if not any(covered(src, item) for src in srcs):
                    continue        # rooted in a failure reported below
                kind = "merge"
                where = f" (performed and reported by statement {srcs[0]})"
            vtxt = str(vais[pos]) if pos in vais else "?"
            res.failures.append({
                "kind": kind, "stmt": pos, "form": form,
                "missing": [item[0], item[1]],
                "msg": (f"statement {pos} [{form}] performs a {word} of "
                        f"'{item[1]}'{where} but VariablesAccessInfo reports"
                        f" {{{vtxt}}}")})
    return res


def stmt_text(stmt, limit=300):
    try:
        txt = psy.write(stmt)
    except Exception:      # pylint: disable=broad-except
        txt = stmt.debug_string() if hasattr(stmt, "debug_string") \
            else str(stmt)
    txt = txt.strip()
    return txt if len(txt) <= limit else txt[:limit] + " ..."


# ----------------------------------------------------------------------
# statement templates
# ----------------------------------------------------------------------
TYPE_LINES = [
    "type :: zt2", "  real :: q", "  integer :: iv(3)", "end type zt2",
    "type :: ztt", "  integer :: k", "  real :: v(5)", "  type(zt2) :: in",
    "end type ztt",
]
# name -> (declaration, initialisation statements)
EXTRA_VARS = {
    "zr": ("real :: zr", ["zr = 0.5"]),
    "zi": ("integer :: zi", ["zi = 2"]),
    "zj": ("integer :: zj", ["zj = 1"]),
    "zl": ("integer :: zl", []),
    "zierr": ("integer :: zierr", ["zierr = 0"]),
    "zvals": ("integer :: zvals(8)", ["zvals = 0"]),
    "zw": ("real, allocatable :: zw(:)", []),
    "zw2": ("real, allocatable :: zw2(:)", []),
    "zs": ("type(ztt) :: zs", ["zs%k = 2", "zs%v = 0.5", "zs%in%q = 1.0",
                               "zs%in%iv = 1"]),
    "zsa": ("type(ztt) :: zsa(2)", ["zsa(1)%k = 1", "zsa(2)%k = 3",
                                    "zsa(1)%v = 1.0", "zsa(2)%v = 2.0",
                                    "zsa(m - m + 1)%in%iv(2) = 4"]),
}
FIXED_HELPERS = [
    "subroutine zh@U@(p, q)",
    "  real, intent(inout) :: p",
    "  real, intent(in) :: q",
    "  p = p + q",
    "end subroutine zh@U@",
    "function zf@U@(p, q) result(res)",
    "  real, intent(in) :: p",
    "  real, intent(inout) :: q",
    "  real :: res",
    "  res = p + q",
    "  q = q + 1.0",
    "end function zf@U@",
    "function zg@U@(q) result(res)",
    "  integer, intent(inout) :: q",
    "  integer :: res",
    "  res = 2",
    "  q = q + 1",
    "end function zg@U@",
    "subroutine zo@U@(p, q)",
    "  real, intent(out) :: p",
    "  integer, intent(in) :: q",
    "  p = real(q)",
    "end subroutine zo@U@",
]


class Tpl:
    """Draw helper for the templates of one program."""

    def __init__(self, draw, prog):
        self.draw = draw
        self.prog = prog
        self.used = []             # extra variable names, in order of use

    def need(self, *names):
        for name in names:
            if name not in self.used:
                self.used.append(name)

    def pick(self, seq):
        seq = list(seq)
        return seq[self.draw(st.integers(0, len(seq) - 1))]

    def flip(self):
        return self.draw(st.booleans())

    def arrays(self, typ, rank=1, writable=True):
        return [v for v in self.prog.args if v.typ == typ and v.rank == rank
                and (v.role == "inout" or not writable)]

    def index(self, lbd, ubd):
        """In-bounds subscript text for a dimension lbd:ubd (extent >= 3)."""
        opts = [str(self.draw(st.integers(max(lbd, 0), ubd)))]
        offs = [o for o in range(-1, 4) if 1 + o >= lbd and 3 + o <= ubd]
        if offs:
            off = self.pick(offs)
            opts.append("m" if off == 0 else
                        f"m {'+' if off > 0 else '-'} {abs(off)}")
        if lbd <= 1 and ubd >= 5 and "zs" in self.used:
            opts.append("zs%k")
        opts.append(f"min(max(k, {gf.lit(lbd)}), {ubd})")
        return self.pick(opts)

    def elem(self, arr):
        return f"{arr.name}(" + ", ".join(self.index(lb, ub)
                                          for lb, ub in arr.dims) + ")"

    def real_target(self, exclude=()):
        """A definable real scalar designator; returns (text, root)."""
        opts = [("zr", "zr"), ("x", "x"), ("y", "y")]
        for arr in self.prog.args:
            if arr.typ == "real" and arr.dims and arr.role == "inout":
                opts.append(("@elem", arr))
        opts += [("zs%in%q", "zs"), ("@zsv", "zs"), ("@zsav", "zsa")]
        opts = [o for o in opts
                if (o[1].name if isinstance(o[1], gf.Var) else o[1])
                not in exclude]
        txt, root = self.pick(opts)
        if isinstance(root, gf.Var):
            return self.elem(root), root.name
        self.need(*[n for n in (root,) if n in EXTRA_VARS])
        if txt == "@zsv":
            return f"zs%v({self.index(1, 5)})", root
        if txt == "@zsav":
            return (f"zsa({self.pick(['1', '2', 'm - m + 2'])})%v("
                    f"{self.index(1, 5)})"), root
        return txt, root

    def real_value(self, exclude=()):
        """A real expression reading defined data; (text, roots)."""
        opts = [("2.0", None), ("x", "x"), ("y", "y"), ("zr", "zr"),
                ("zs%in%q", "zs"), ("@zsv", "zs"), ("@arr", None)]
        opts = [o for o in opts if o[1] not in exclude]
        txt, root = self.pick(opts)
        if root in EXTRA_VARS:
            self.need(root)
        if txt == "@zsv":
            return f"zs%v({self.index(1, 5)})", "zs"
        if txt == "@arr":
            arrs = [a for a in self.prog.args if a.typ == "real" and a.dims
                    and a.name not in exclude]
            if not arrs:
                return "1.5", None
            arr = self.pick(arrs)
            return self.elem(arr), arr.name
        return txt, root


def t_random_number(tpl):
    kind = tpl.pick(["scalar", "section", "whole", "zsv"])
    arrs = tpl.arrays("real")
    if kind == "scalar" or (kind in ("section", "whole") and not arrs):
        return [f"call random_number({tpl.real_target()[0]})"]
    if kind == "zsv":
        tpl.need("zs")
        return [f"call random_number({tpl.pick(['zs%v', 'zs%v(2:m + 2)'])})"]
    arr = tpl.pick(arrs)
    if kind == "whole":
        return [f"call random_number({arr.name})"]
    lbd = arr.dims[0][0]
    return [f"call random_number({arr.name}({lbd + 1}:m + {lbd + 2}))"]


def t_cpu_time(tpl):
    return [f"call cpu_time({tpl.real_target()[0]})"]


def t_system_clock(tpl):
    tpl.need("zi", "zj")
    forms = ["call system_clock(zi)", "call system_clock(count=zi)",
             "call system_clock(zi, zj)",
             "call system_clock(count_rate=zj, count=zi)",
             "call system_clock(zi, zj, k)",
             "call system_clock(count_max=k)"]
    ibs = tpl.arrays("int")
    if ibs:
        forms.append(f"call system_clock({tpl.elem(ibs[0])})")
    return [tpl.pick(forms)]


def t_date_and_time(tpl):
    tpl.need("zvals")
    return ["call date_and_time(values=zvals)"]


def t_mvbits(tpl):
    tpl.need("zi", "zj")
    src = tpl.pick(["k", "zj", "5", "abs(k)", "zj + 3"])
    dst = tpl.pick(["zi", "k"] if not src.startswith("k") else ["zi"])
    ibs = tpl.arrays("int")
    if ibs and tpl.flip():
        dst = tpl.elem(ibs[0])
    return [f"call mvbits({src}, {tpl.pick(['0', '1', 'm'])}, "
            f"{tpl.pick(['1', '2', 'm'])}, {dst}, {tpl.pick(['0', '2'])})"]


def t_random_seed(tpl):
    tpl.need("zi")
    return ["call random_seed(size=zi)"]


def t_alloc(tpl):
    tpl.need("zierr", "zw", "zw2")
    arrs = tpl.arrays("real", writable=False)
    forms = ["allocate(zw(1:n + 1), stat=zierr)", "allocate(zw(m + 2))",
             "allocate(zw(0:m), stat=zierr)",
             "allocate(zw(n + 2), source=1.5)"]
    if arrs:
        forms.append(f"allocate(zw, source={arrs[0].name})")
        forms.append(f"allocate(zw, mold={arrs[0].name})")
    lines = [tpl.pick(forms), "zw = 1.5"]
    if tpl.flip():
        lines.append(f"{tpl.real_target(exclude=('zw',))[0]} = "
                     f"zw({tpl.pick(['1', 'ubound(zw, 1)'])}) + zr")
        tpl.need("zr")
    name = "zw"
    if tpl.flip():
        lines.append("call move_alloc(zw, zw2)")
        lines.append(f"zw2({tpl.pick(['1', 'ubound(zw2, 1)'])}) = "
                     f"{tpl.real_value()[0]}")
        name = "zw2"
    lines.append(tpl.pick([f"deallocate({name}, stat=zierr)",
                           f"deallocate({name})"]))
    return lines


def t_alloc2(tpl):
    tpl.need("zierr", "zw", "zw2")
    return [tpl.pick(["allocate(zw(3), zw2(n + 2), stat=zierr)",
                      "allocate(zw(m), zw2(2:m + 2))"]),
            "zw2 = 0.5", "zw = zw2(2)",
            tpl.pick(["deallocate(zw, zw2, stat=zierr)",
                      "deallocate(zw2, zw)"])]


def t_struct(tpl):
    tpl.need("zs")
    val, _ = tpl.real_value(exclude=("zs",))
    forms = [
        f"zs%v(zs%k) = {val} + zs%in%q",
        "zs%k = mod(abs(k), 4) + 1",
        f"{tpl.real_target(exclude=('zs', 'zsa'))[0]} = zs%v(zs%k) * 2.0",
        "zs%v(1:3) = zs%v(3:5)",
        "zs%in%iv(zs%k / 2 + 1) = mod(abs(zs%k + k), 3) + 1",
        "zs%v(zs%in%iv(m)) = 0.25",
        "zs%in%q = sum(zs%v(2:m + 2))",
        "k = zs%in%iv(2) + size(zs%v)",
    ]
    arrs = tpl.arrays("real")
    if arrs:
        lbd = arrs[0].dims[0][0]
        forms.append(f"zs%v(1:3) = {arrs[0].name}({lbd}:{lbd + 2})")
        forms.append(f"{arrs[0].name}({lbd + 1}:{lbd + 3}) = zs%v(m:m + 2)")
    out = [tpl.pick(forms)]
    if tpl.flip():
        tpl.need("zsa")
        out.append(tpl.pick([
            "zsa(m - m + 1)%v(zs%k) = zsa(2)%v(m)",
            "zsa(zsa(1)%k)%in%iv(m) = zs%k",
            "zsa(2)%k = zsa(1)%in%iv(2) - 1",
            f"zsa(zs%k / 3 + 1)%in%q = {val}",
        ]))
    return out


def t_call_fixed(tpl):
    tgt, root = tpl.real_target()
    val, _ = tpl.real_value(exclude=(root,))
    kind = tpl.pick(["zh", "zh_kw", "zh_fn", "zo"])
    if kind == "zh":
        return [f"call zh@U@({tgt}, {val})"]
    if kind == "zh_kw":
        return [f"call zh@U@(q={val}, p={tgt})"]
    if kind == "zo":
        return [f"call zo@U@({tgt}, {tpl.pick(['k', 'm + 1', '3'])})"]
    tpl.need("zr")
    if root == "zr":
        return [f"call zh@U@({tgt}, {val})"]
    return [f"call zh@U@({tgt}, zf@U@({tpl.pick(['t', 't', '2.0'])}, zr))"]


def t_func_side_effect(tpl):
    tpl.need("zr", "zj", "zl")
    kind = tpl.pick(["assign", "if", "bound", "while", "elem"])
    if kind == "assign":
        tgt, _ = tpl.real_target(exclude=("zr",))
        return [f"{tgt} = zf@U@({tpl.pick(['x', 't', 'x + 1.0', '2.0'])}, zr) + 1.0"]
    if kind == "elem":
        arrs = tpl.arrays("real")
        if not arrs:
            return ["t = zf@U@(t, zr)"]
        return [f"x = zf@U@({tpl.pick(['t', 'y', '1.0'])}, {tpl.elem(arrs[0])}) * 2.0"]
    if kind == "if":
        return [f"if (zf@U@({tpl.pick(['t', 'x', '1.0'])}, zr) > 2.0) then",
                "  t = zr", "else",
                "  t = 0.0", "end if"]
    if kind == "bound":
        return ["do zl = 1, zg@U@(zj)", "  t = t + 1.0", "end do"]
    return ["zl = 0", "do while (zg@U@(zj) > zl)", "  zl = zl + 1", "end do"]


def t_io(tpl):
    val, _ = tpl.real_value()
    tgt, _ = tpl.real_target()
    tpl.need("zi")
    return [tpl.pick([
        f"print *, 'v', {val}", f"write(*, *) {val}, k + 1",
        f"read(*, *) {tgt}", "read *, zi", f"print *, {val}",
        f"read(*, *) zi, {tgt}"])]


def t_inquiry(tpl):
    tpl.need("zi")
    arrs = tpl.arrays("real", writable=False)
    if not arrs:
        tpl.need("zs")
        return [tpl.pick(["zi = size(zs%v(2:m + 2))", "zi = size(zs%v)"])]
    arr = arrs[0]
    lbd = arr.dims[0][0]
    return [tpl.pick([
        f"zi = size({arr.name}({lbd + 1}:m + {lbd + 2}))",
        f"zi = ubound({arr.name}({lbd}:m + {lbd}), 1)",
        f"zi = size({arr.name}) + lbound({arr.name}, 1)"])]


TEMPLATES = [
    ("random_number", t_random_number, 3), ("cpu_time", t_cpu_time, 2),
    ("system_clock", t_system_clock, 3), ("date_and_time", t_date_and_time, 1),
    ("mvbits", t_mvbits, 3), ("random_seed", t_random_seed, 1),
    ("alloc", t_alloc, 4), ("alloc2", t_alloc2, 1), ("struct", t_struct, 5),
    ("call_fixed", t_call_fixed, 4), ("func_side_effect", t_func_side_effect,
                                      4),
    ("io", t_io, 3), ("inquiry", t_inquiry, 2),
]


class Case:
    """A generated C11 case: gen_fortran program + template statements."""

    def __init__(self, prog, source, api_intr, templates):
        self.prog = prog
        self.source = source
        self.api_intr = api_intr
        self.templates = templates
        self.subname = prog.subname
        self.args = prog.args
        self.inputs = prog.inputs

    def to_dict(self):
        return {"source": self.source, "subname": self.subname,
                "args": [[v.name, v.typ, [list(d) for d in v.dims], v.role]
                         for v in self.args],
                "inputs": self.inputs, "api_intr": self.api_intr,
                "templates": self.templates}


class ReplayProg:
    def __init__(self, case):
        self.subname = case["subname"]
        self.args = [gf.Var(name, typ, [tuple(d) for d in dims], role=role)
                     for name, typ, dims, role in case["args"]]
        self.inputs = case["inputs"]
        self.module_source = case["source"]
        self.source = case["source"]
        self.api_intr = bool(case.get("api_intr"))


def prologue_len(body):
    pos = 0
    while pos < len(body) and gf._PROLOGUE.match(body[pos].strip()):
        pos += 1
    return pos


def render(prog, blocks, used):
    """Module text of `prog` with the template `blocks` [(position, lines)]
    inserted into the body and the extra declarations added."""
    body = list(prog.body)
    start = prologue_len(body)
    inits = []
    for name in used:
        inits.extend(EXTRA_VARS[name][1])
    for pos, lines in sorted(blocks, key=lambda b: -b[0]):
        body[pos:pos] = lines
    body[start:start] = inits
    out = [f"module {prog.modname}", "  implicit none"]
    for var in prog.module_vars:
        out.append("  " + var.decl(intent=False))
    if blocks:
        out.extend("  " + ln for ln in TYPE_LINES)
    out.append("contains")
    rout = [f"subroutine {prog.subname}("
            + ", ".join(v.name for v in prog.args) + ")"]
    for var in prog.args:
        rout.append("  " + var.decl())
    for var in prog.locals:
        rout.append("  " + var.decl(intent=False))
    for name in used:
        rout.append("  " + EXTRA_VARS[name][0])
    rout.extend("  " + ln for ln in body)
    rout.append(f"end subroutine {prog.subname}")
    out.extend("  " + ln for ln in rout)
    for hlp in prog.helpers:
        out.extend("  " + ln for ln in prog.helper_lines(hlp))
    if blocks:
        out.extend("  " + ln for ln in FIXED_HELPERS)
    out.append(f"end module {prog.modname}")
    return ("\n".join(out) + "\n").replace("@U@", prog.uid)


@st.composite
def cases(draw, profile, max_templates=3, only=None):
    prog = draw(gf.programs(profile))
    tpl = Tpl(draw, prog)
    ntpl = draw(st.integers(0, max_templates))
    table = [t for t in TEMPLATES if only is None or t[0] in only]
    weights = []
    for pos, (_, _, wgt) in enumerate(table):
        weights.extend([pos] * wgt)
    start = prologue_len(prog.body)
    bounds = sorted({start} | {end for _, end, depth in
                               gf.statement_spans(prog.body)
                               if depth == 0 and end >= start})
    blocks = []
    names = []
    for _ in range(ntpl):
        name, fun, _ = table[weights[draw(st.integers(0, len(weights) - 1))]]
        lines = fun(tpl)
        wrap = draw(st.sampled_from(["none", "none", "none", "if", "do"]))
        if wrap == "if":
            lines = [f"if (n > {draw(st.integers(-1, 4))}) then"] + \
                ["  " + ln for ln in lines] + ["end if"]
        elif wrap == "do" and name != "func_side_effect":
            tpl.need("zl")
            lines = ["do zl = 1, m"] + ["  " + ln for ln in lines] + \
                ["end do"]
        blocks.append((bounds[draw(st.integers(0, len(bounds) - 1))], lines))
        names.append(name)
    api_intr = draw(st.booleans()) if any(
        n in ("random_number", "cpu_time", "system_clock", "date_and_time",
              "mvbits", "random_seed", "alloc") for n in names) else False
    # stable order: blocks drawn for the same position keep drawing order
    ordered = []
    for num, (pos, lines) in enumerate(blocks):
        ordered.append((pos, num, lines))
    ordered.sort()
    merged = {}
    for pos, _, lines in ordered:
        merged.setdefault(pos, []).extend(lines)
    source = render(prog, sorted(merged.items()), tpl.used)
    return Case(prog, source, api_intr, names)
