"""C25 helper: GOcean mock grid, bounds specification and loop-nest evaluator.

Nothing here is compiled (dl_esm_inf is not available).  The module holds

* GOLDEN      - the *golden reference* table of built-in iteration regions
                (dl_esm_inf staggering conventions: what `fld%internal` and
                `fld%whole` contain for every index offset / grid-point type),
                written as integer offsets relative to the T-point internal
                region [start..stop]; it is a transcription, it cannot be
                derived independently of the pinned code where the user
                guide is silent.
* MockGrid    - the store that generated PSy-layer code is evaluated
                against (fld%grid%subdomain%internal%*, fld%internal%*,
                fld%whole%*, SIZE(fld%data, d)).
* eval_bound  - independent evaluator of config-file bound strings.
* source generators for kernel metadata/kernel modules, the algorithm
  layer and the per-case psyclone.cfg.
* build / apply-history / generate helpers around PSyclone.
* run_invoke  - evaluates the generated invoke subroutine (re-read with
                FortranReader) and records (kernel, i, j) call events.
"""
from __future__ import annotations

import os
import re

from vlib.runner import HarnessError

API = "gocean1.0"

OFFSETS = ["go_offset_ne", "go_offset_sw", "go_offset_any"]
GRID_OFFSETS = ["go_offset_ne", "go_offset_sw"]
PT_TYPES = ["go_ct", "go_cu", "go_cv", "go_cf", "go_every"]
BUILTIN_SPACES = ["go_internal_pts", "go_all_pts"]

# --------------------------------------------------------------------------
# Golden reference: (x_lo, x_hi, y_lo, y_hi); lo is relative to {start},
# hi relative to {stop} of the respective direction.
# --------------------------------------------------------------------------
_FULL = (-1, +1, -1, +1)
GOLDEN = {
    "go_offset_ne": {
        "go_ct": {"go_all_pts": _FULL, "go_internal_pts": (0, 0, 0, 0)},
        "go_cu": {"go_all_pts": (-1, 0, -1, +1),
                  "go_internal_pts": (0, -1, 0, 0)},
        "go_cv": {"go_all_pts": (-1, +1, -1, 0),
                  "go_internal_pts": (0, 0, 0, -1)},
        "go_cf": {"go_all_pts": (-1, 0, -1, 0),
                  "go_internal_pts": (-1, -1, -1, -1)},
    },
    "go_offset_sw": {
        "go_ct": {"go_all_pts": _FULL, "go_internal_pts": (0, 0, 0, 0)},
        "go_cu": {"go_all_pts": _FULL, "go_internal_pts": (0, +1, 0, 0)},
        "go_cv": {"go_all_pts": _FULL, "go_internal_pts": (0, 0, 0, +1)},
        "go_cf": {"go_all_pts": _FULL, "go_internal_pts": (0, +1, 0, +1)},
    },
}
for _off in GOLDEN:
    GOLDEN[_off]["go_every"] = {"go_all_pts": _FULL, "go_internal_pts": _FULL}

INTERNAL_START = 2       # dl_esm_inf: one boundary/halo layer => start = 2


class EvalError(Exception):
    """The evaluator met something it cannot evaluate."""


class MockGrid:
    """A dl_esm_inf-like grid: T-point internal region [2..nx+1]x[2..ny+1],
    depth-1 halo/boundary, every field array allocated (1:nx+2, 1:ny+2)."""

    def __init__(self, offset, nx, ny, field_types):
        if offset not in GRID_OFFSETS:
            raise HarnessError(f"bad grid offset {offset}")
        self.offset = offset
        self.nx, self.ny = nx, ny
        self.xstart = self.ystart = INTERNAL_START
        self.xstop = INTERNAL_START + nx - 1
        self.ystop = INTERNAL_START + ny - 1
        # field name -> concrete grid-point type (never go_every)
        self.field_types = dict(field_types)

    # region as (xlo, xhi, ylo, yhi)
    def region_from_offsets(self, offs):
        return (self.xstart + offs[0], self.xstop + offs[1],
                self.ystart + offs[2], self.ystop + offs[3])

    def halo_box(self):
        return self.region_from_offsets(_FULL)

    def field_region(self, fld, which):
        ftype = self.field_types.get(fld)
        if ftype is None:
            raise EvalError(f"unknown field '{fld}'")
        space = {"internal": "go_internal_pts", "whole": "go_all_pts"}[which]
        return self.region_from_offsets(GOLDEN[self.offset][ftype][space])

    def lookup(self, path):
        """path: list of lower-case component names, e.g.
        ['f','grid','subdomain','internal','xstop']."""
        fld, rest = path[0], path[1:]
        if fld not in self.field_types:
            raise EvalError(f"unknown field '{fld}'")
        names = {"xstart": 0, "xstop": 1, "ystart": 2, "ystop": 3}
        if rest[:3] == ["grid", "subdomain", "internal"] and len(rest) == 4 \
                and rest[3] in names:
            return (self.xstart, self.xstop, self.ystart,
                    self.ystop)[names[rest[3]]]
        if len(rest) == 2 and rest[0] in ("internal", "whole") \
                and rest[1] in names:
            return self.field_region(fld, rest[0])[names[rest[1]]]
        if rest == ["grid", "nx"]:
            return self.xstop + 1
        if rest == ["grid", "ny"]:
            return self.ystop + 1
        raise EvalError(f"no mock value for '{'%'.join(path)}'")

    def size(self, path, dim):
        if len(path) == 2 and path[1] == "data" \
                and path[0] in self.field_types and dim in (1, 2):
            return (self.xstop + 1, self.ystop + 1)[dim - 1]
        raise EvalError(f"no mock SIZE for '{'%'.join(path)}', dim {dim}")

    def describe(self):
        return {"offset": self.offset, "nx": self.nx, "ny": self.ny}


def region_points(reg):
    xlo, xhi, ylo, yhi = reg
    return {(i, j) for j in range(ylo, yhi + 1) for i in range(xlo, xhi + 1)}


def builtin_region(kernel_offset, gtype, space, grid):
    """Specified built-in region for a kernel on `grid` (golden reference).
    A go_offset_any kernel runs on whatever offset the grid has."""
    off = grid.offset if kernel_offset == "go_offset_any" else kernel_offset
    if off != grid.offset:
        raise HarnessError("kernel offset incompatible with grid offset")
    return grid.region_from_offsets(GOLDEN[off][gtype][space])


# --------------------------------------------------------------------------
# Fortran integer helpers and the config-bound evaluator
# --------------------------------------------------------------------------
def ftn_div(lhs, rhs):
    if rhs == 0:
        raise EvalError("division by zero")
    quo = abs(lhs) // abs(rhs)
    return quo if (lhs >= 0) == (rhs >= 0) else -quo


_TOKEN = re.compile(r"\s*(\{start\}|\{stop\}|\d+|[-+*/()])")


def eval_bound(text, start, stop):
    """Evaluate an iteration-space bound from the config file with
    {start}/{stop} replaced by the given integers (Fortran integer
    arithmetic, usual precedence). Written independently of PSyclone."""
    toks = []
    pos = 0
    text = text.strip()
    while pos < len(text):
        mat = _TOKEN.match(text, pos)
        if not mat:
            raise HarnessError(f"cannot tokenise bound '{text}' at {pos}")
        toks.append(mat.group(1))
        pos = mat.end()
    idx = [0]

    def peek():
        return toks[idx[0]] if idx[0] < len(toks) else None

    def take():
        tok = peek()
        idx[0] += 1
        return tok

    def atom():
        tok = take()
        if tok == "{start}":
            return start
        if tok == "{stop}":
            return stop
        if tok == "(":
            val = expr()
            if take() != ")":
                raise HarnessError(f"unbalanced bound '{text}'")
            return val
        if tok == "-":
            return -term()
        if tok == "+":
            return term()
        if tok is not None and tok.isdigit():
            return int(tok)
        raise HarnessError(f"bad token {tok!r} in bound '{text}'")

    def term():
        val = atom()
        while peek() in ("*", "/"):
            if take() == "*":
                val = val * atom()
            else:
                val = ftn_div(val, atom())
        return val

    def expr():
        if peek() == "-":
            take()
            val = -term()
        elif peek() == "+":
            take()
            val = term()
        else:
            val = term()
        while peek() in ("+", "-"):
            if take() == "+":
                val = val + term()
            else:
                val = val - term()
        return val

    res = expr()
    if idx[0] != len(toks):
        raise HarnessError(f"trailing tokens in bound '{text}'")
    return res


def user_region(space, grid):
    """space: dict(os, oe, is, ie) of config strings."""
    return (eval_bound(space["is"], grid.xstart, grid.xstop),
            eval_bound(space["ie"], grid.xstart, grid.xstop),
            eval_bound(space["os"], grid.ystart, grid.ystop),
            eval_bound(space["oe"], grid.ystart, grid.ystop))


# --------------------------------------------------------------------------
# Case helpers
# --------------------------------------------------------------------------
def kernel_written_type(kern):
    """Grid-point type that determines the kernel's loops: the type of its
    first written field argument."""
    for arg in kern["args"]:
        if arg["kind"] == "field" and arg["access"] != "go_read":
            return arg["type"]
    raise HarnessError(f"kernel {kern['name']} writes no field")


def find_space(case, kern):
    """The user-defined space a kernel iterates over, or None (built-in)."""
    if kern["space"] in BUILTIN_SPACES:
        return None
    gtype = kernel_written_type(kern)
    found = None
    for spc in case.get("spaces", []):
        if spc["name"] == kern["space"] and spc["offset"] == kern["offset"] \
                and spc["type"] == gtype:
            found = spc          # later definitions replace earlier ones
    if found is None:
        raise HarnessError(f"space {kern['space']} undefined for kernel")
    return found


def expected_region(case, kern, grid):
    spc = find_space(case, kern)
    if spc is not None:
        return user_region(spc, grid)
    return builtin_region(kern["offset"], kernel_written_type(kern),
                          kern["space"], grid)


def case_field_types(case):
    """Algorithm-layer field name -> concrete grid-point type."""
    out = {}
    for call in case["invoke"]:
        kern = case["kernels"][call["kernel"]]
        fargs = [a for a in kern["args"] if a["kind"] == "field"]
        for arg, name in zip(fargs, call["fields"]):
            out[name] = field_type_of_name(name)
            if arg["type"] not in ("go_every", out[name]):
                raise HarnessError(f"field {name} passed as {arg['type']}")
    return out


_FNAME = {"t": "go_ct", "u": "go_cu", "v": "go_cv", "f": "go_cf"}


def field_type_of_name(name):
    # fields are called f<t|u|v|f><n>
    return _FNAME[name[1]]


def field_name(gtype, num):
    letter = {v: k for k, v in _FNAME.items()}[gtype]
    return f"f{letter}{num}"


# --------------------------------------------------------------------------
# Source generation
# --------------------------------------------------------------------------
GRID_PROPS = {
    "go_grid_area_t": ("real(go_wp), intent(in), dimension(:,:)"),
    "go_grid_mask_t": ("integer, intent(in), dimension(:,:)"),
    "go_grid_dx_const": ("real(go_wp), intent(in)"),
    "go_grid_x_max_index": ("integer, intent(in)"),
    "go_grid_dy_u": ("real(go_wp), intent(in), dimension(:,:)"),
}


def kernel_source(kern):
    name = kern["name"]
    metas, decls, dummies = [], [], []
    first_written = None
    for num, arg in enumerate(kern["args"]):
        dum = f"a{num}"
        dummies.append(dum)
        if arg["kind"] == "field":
            sten = arg.get("stencil") or "GO_POINTWISE"
            metas.append(f"go_arg({arg['access'].upper()}, "
                         f"{arg['type'].upper()}, {sten})")
            intent = {"go_read": "in", "go_write": "out",
                      "go_readwrite": "inout"}[arg["access"]]
            decls.append(f"real(go_wp), intent({intent}), dimension(:,:) "
                         f":: {dum}")
            if first_written is None and arg["access"] != "go_read":
                first_written = dum
        elif arg["kind"] == "scalar":
            metas.append(f"go_arg(GO_READ, {arg['type'].upper()}, "
                         f"GO_POINTWISE)")
            decls.append(("real(go_wp)" if arg["type"] == "go_r_scalar"
                          else "integer") + f", intent(in) :: {dum}")
        elif arg["kind"] == "grid":
            metas.append(f"go_arg(GO_READ, {arg['prop'].upper()})")
            decls.append(f"{GRID_PROPS[arg['prop']]} :: {dum}")
        else:
            raise HarnessError(f"bad arg kind {arg['kind']}")
    meta_txt = ", &\n          ".join(metas)
    decl_txt = "\n    ".join(decls)
    return f"""module {name}_mod
  use kind_params_mod
  use kernel_mod
  use argument_mod
  use field_mod
  use grid_mod
  implicit none
  private
  public {name}, {name}_code
  type, extends(kernel_type) :: {name}
     type(go_arg), dimension({len(metas)}) :: meta_args = (/ &
          {meta_txt} /)
     integer :: ITERATES_OVER = {kern['space'].upper()}
     integer :: index_offset = {kern['offset'].upper()}
  contains
    procedure, nopass :: code => {name}_code
  end type {name}
contains
  subroutine {name}_code(i, j, {', '.join(dummies)})
    integer, intent(in) :: i, j
    {decl_txt}
    {first_written}(i, j) = 1.0_go_wp
  end subroutine {name}_code
end module {name}_mod
"""


def alg_source(case):
    kerns = case["kernels"]
    uses, calls = [], []
    fields, rscal, iscal = [], [], []
    for call in case["invoke"]:
        kern = kerns[call["kernel"]]
        use = f"  use {kern['name']}_mod, only: {kern['name']}"
        if use not in uses:
            uses.append(use)
        actual = []
        fiter = iter(call["fields"])
        for arg in kern["args"]:
            if arg["kind"] == "field":
                fname = next(fiter)
                actual.append(fname)
                if fname not in fields:
                    fields.append(fname)
            elif arg["kind"] == "scalar":
                # an actual argument may be passed only once per kernel
                pool = rscal if arg["type"] == "go_r_scalar" else iscal
                stem = "rscal" if arg["type"] == "go_r_scalar" else "iscal"
                num = sum(1 for a in actual if a.startswith(stem))
                actual.append(f"{stem}{num}")
                if actual[-1] not in pool:
                    pool.append(actual[-1])
        calls.append(f"{kern['name']}({', '.join(actual)})")
    decl = [f"  type(r2d_field) :: {', '.join(fields)}"]
    if rscal:
        decl.append(f"  real(go_wp) :: {', '.join(rscal)}")
    if iscal:
        decl.append(f"  integer :: {', '.join(iscal)}")
    nl = "\n"
    return f"""program alg_c25
  use kind_params_mod
  use grid_mod
  use field_mod
{nl.join(uses)}
  implicit none
  type(grid_type), target :: model_grid
{nl.join(decl)}
  call invoke({(', &' + nl + '              ').join(calls)})
end program alg_c25
"""


_BASE_CFG = {}


def config_text(spaces):
    """The repository's config file with an `iteration-spaces` entry added
    to its [gocean] section."""
    path = os.environ.get("PSYCLONE_CONFIG") or os.path.join(
        os.environ.get("VERIF_REPO", "/repo"), "config", "psyclone.cfg")
    if path not in _BASE_CFG:
        with open(path, encoding="utf-8") as fin:
            _BASE_CFG[path] = fin.read()
    base = _BASE_CFG[path]
    if not spaces:
        return base
    lines = [":".join([s["offset"], s["type"], s["name"],
                       s["os"], s["oe"], s["is"], s["ie"]]) for s in spaces]
    entry = "iteration-spaces=" + ("\n" + " " * 17).join(lines) + "\n"
    if "[gocean]\n" not in base:
        raise HarnessError("no [gocean] section in the base config file")
    return base.replace("[gocean]\n", "[gocean]\n" + entry, 1)


def write_case_files(case, workdir):
    cfg = os.path.join(workdir, "psyclone.cfg")
    with open(cfg, "w", encoding="utf-8") as fout:
        fout.write(config_text(case.get("spaces", [])))
    for kern in case["kernels"]:
        with open(os.path.join(workdir, kern["name"] + "_mod.f90"), "w",
                  encoding="utf-8") as fout:
            fout.write(kernel_source(kern))
    alg = os.path.join(workdir, "alg_c25.f90")
    with open(alg, "w", encoding="utf-8") as fout:
        fout.write(alg_source(case))
    return cfg, alg


# --------------------------------------------------------------------------
# PSyclone driving
# --------------------------------------------------------------------------
def reset_psyclone(cfg_path):
    """Forget every piece of class-level state that depends on the config
    file and load `cfg_path`."""
    from psyclone.configuration import Config
    from psyclone.domain.gocean import GOceanConstants
    from psyclone.gocean1p0 import GOLoop
    from psyclone.psyir.transformations import PSyDataTrans
    GOceanConstants.HAS_BEEN_INITIALISED = False
    GOLoop._bounds_lookup = {}
    PSyDataTrans._used_kernel_names = {}
    Config._instance = None
    Config.get(do_not_load_file=True).load(cfg_path)


class Refused(Exception):
    """A transformation refused (TransformationError)."""


class Unusable(Exception):
    """PSyclone could not process the case for a reason that is outside
    the property (generation error, unexpected exception)."""

    def __init__(self, why, detail=""):
        super().__init__(f"{why}: {detail}")
        self.why = why


def build_psy(case, cfg, alg, cache=None):
    """Create a fresh PSy object for the case. `cache` (a dict owned by the
    caller, one per case) keeps the parsed algorithm/kernel-metadata
    information: parsing the metadata dominates the cost and its result is
    only read by PSyFactory.create()."""
    from psyclone.parse.algorithm import parse
    from psyclone.psyGen import PSyFactory
    from psyclone.psyir.transformations import PSyDataTrans
    if cache is None:
        cache = {}
    if "info" not in cache:
        reset_psyclone(cfg)
        _, cache["info"] = parse(alg, api=API,
                                 kernel_paths=[os.path.dirname(alg)])
    PSyDataTrans._used_kernel_names = {}
    psy = PSyFactory(API, distributed_memory=bool(case.get("dm"))) \
        .create(cache["info"])
    return psy


def _loops(sched):
    from psyclone.psyir.nodes import Loop
    return sched.walk(Loop)


def _pick(seq, idx):
    if not seq:
        raise Refused("no candidate node")
    return seq[idx % len(seq)]


def apply_op(sched, oper):
    """Apply one history entry (a list [name, k, n]). Raises Refused on
    TransformationError (or when there is no candidate node)."""
    # pylint: disable=import-outside-toplevel,too-many-branches
    from psyclone.domain.gocean.transformations import (
        GOConstLoopBoundsTrans, GOceanExtractTrans, GOceanLoopFuseTrans)
    from psyclone.psyir.nodes import (ACCDirective, Loop, OMPDirective,
                                      ACCEnterDataDirective)
    from psyclone.psyir.transformations import (LoopSwapTrans,
                                                TransformationError)
    from psyclone.transformations import (
        ACCEnterDataTrans, ACCLoopTrans, ACCParallelTrans,
        GOceanOMPLoopTrans, GOceanOMPParallelLoopTrans, OMPParallelTrans)
    name, knum, nnum = oper[0], int(oper[1]), int(oper[2])
    try:
        if name == "const":
            GOConstLoopBoundsTrans().apply(sched)
        elif name == "fuse":
            cands = [lp for lp in _loops(sched)
                     if lp.parent and lp.position + 1 < len(lp.parent.children)
                     and isinstance(lp.parent.children[lp.position + 1], Loop)]
            loop = _pick(cands, knum)
            GOceanLoopFuseTrans().apply(
                loop, loop.parent.children[loop.position + 1])
        elif name == "fuse2":
            # fuse two adjacent outer loops and then their inner loops
            cands = [lp for lp in _loops(sched)
                     if lp.loop_type == "outer" and lp.parent
                     and lp.position + 1 < len(lp.parent.children)
                     and isinstance(lp.parent.children[lp.position + 1], Loop)]
            loop = _pick(cands, knum)
            GOceanLoopFuseTrans().apply(
                loop, loop.parent.children[loop.position + 1])
            inner = [c for c in loop.loop_body.children
                     if isinstance(c, Loop)]
            if len(inner) >= 2:
                GOceanLoopFuseTrans().apply(inner[0], inner[1])
        elif name == "omp_parloop":
            GOceanOMPParallelLoopTrans().apply(_pick(_loops(sched), knum))
        elif name == "omp_do_par":
            loop = _pick(_loops(sched), knum)
            GOceanOMPLoopTrans().apply(loop)
            OMPParallelTrans().apply(loop.parent.parent)
        elif name == "omp_region":
            kids = sched.children
            start = knum % max(1, len(kids))
            nodes = kids[start:start + 1 + nnum % 3]
            if not nodes:
                raise Refused("empty range")
            loops = [lp for nod in nodes for lp in nod.walk(Loop)
                     if lp.loop_type == "outer"
                     and not lp.ancestor((OMPDirective, ACCDirective))]
            OMPParallelTrans().apply(nodes)
            for loop in loops:
                GOceanOMPLoopTrans().apply(loop)
        elif name == "acc":
            kids = sched.children
            start = knum % max(1, len(kids))
            nodes = kids[start:start + 1 + nnum % 3]
            if not nodes:
                raise Refused("empty range")
            loops = [lp for nod in nodes for lp in nod.walk(Loop)
                     if lp.loop_type == "outer"
                     and not lp.ancestor((OMPDirective, ACCDirective))]
            ACCParallelTrans().apply(nodes)
            for num, loop in enumerate(loops):
                opts = {"collapse": 2} if (nnum + num) % 2 else {}
                ACCLoopTrans().apply(loop, opts)
            if not sched.walk(ACCEnterDataDirective):
                ACCEnterDataTrans().apply(sched)
        elif name == "extract":
            if nnum % 2:
                GOceanExtractTrans().apply(_pick(_loops(sched), knum))
            else:
                kids = sched.children
                start = knum % max(1, len(kids))
                nodes = kids[start:start + 1 + (nnum // 2) % 3]
                if not nodes:
                    raise Refused("empty range")
                GOceanExtractTrans().apply(nodes)
        elif name == "swap":
            cands = [lp for lp in _loops(sched) if lp.walk(Loop)[1:]]
            LoopSwapTrans().apply(_pick(cands, knum))
        else:
            raise HarnessError(f"unknown history operation {name}")
    except TransformationError as err:
        raise Refused(str(err.value)[:200]) from err


OPS = ["const", "fuse", "fuse2", "omp_parloop", "omp_do_par", "omp_region",
       "acc", "extract", "swap"]


def generate(case, cfg, alg, history, cache=None):
    """Build the PSy layer, apply `history` (every entry but the last must
    be accepted: they were accepted before) and return the generated
    Fortran text. Raises Refused if the *last* entry is refused, Unusable
    for anything that is not this property's business."""
    from psyclone.errors import GenerationError, InternalError
    from psyclone.parse.utils import ParseError
    try:
        psy = build_psy(case, cfg, alg, cache)
    except (GenerationError, ParseError, InternalError) as err:
        raise Unusable("build_" + type(err).__name__, str(err)[:300]) from err
    sched = psy.invokes.invoke_list[0].schedule
    for num, oper in enumerate(history):
        last = num == len(history) - 1
        try:
            apply_op(sched, oper)
        except Refused:
            if last:
                raise
            raise HarnessError(
                f"history entry {oper} refused on rebuild (accepted before)")
        except (GenerationError, InternalError, KeyError, AttributeError,
                TypeError, ValueError, NotImplementedError,
                IndexError) as err:
            if last:
                raise Unusable("apply_" + oper[0] + "_" + type(err).__name__,
                               str(err)[:300]) from err
            raise HarnessError(
                f"history entry {oper} raised on rebuild: {err}") from err
    try:
        return str(psy.gen)
    except (GenerationError, InternalError, KeyError, AttributeError,
            TypeError, ValueError, NotImplementedError, IndexError) as err:
        raise Unusable("gen_" + type(err).__name__, str(err)[:300]) from err


# --------------------------------------------------------------------------
# Evaluation of the generated invoke
# --------------------------------------------------------------------------
def read_invoke(text):
    """Re-read generated PSy-layer Fortran; return the invoke Routine."""
    from psyclone.psyir.frontend.fortran import FortranReader
    from psyclone.psyir.nodes import Routine
    try:
        tree = FortranReader().psyir_from_source(text)
    except Exception as err:      # generated code must be readable
        raise EvalError(f"generated PSy layer cannot be re-read: "
                        f"{type(err).__name__}: {str(err)[:200]}") from err
    routs = [r for r in tree.walk(Routine)
             if r.name.lower().startswith("invoke")]
    if len(routs) != 1:
        raise EvalError(f"expected one invoke routine, found "
                        f"{[r.name for r in routs]}")
    return routs[0]


class _Runner:
    MAX_EVENTS = 20000

    def __init__(self, grid, kernels):
        self.grid = grid
        self.kernels = {k.lower() for k in kernels}
        self.env = {}
        self.events = []
        self.ignored = set()

    # ---- expressions ----
    def path(self, ref):
        sig, _ = ref.get_signature_and_indices()
        return [part.lower() for part in str(sig).split("%")]

    def value(self, node):
        # pylint: disable=import-outside-toplevel,too-many-return-statements
        from psyclone.psyir.nodes import (BinaryOperation, IntrinsicCall,
                                          Literal, Reference,
                                          StructureReference, UnaryOperation)
        if isinstance(node, Literal):
            try:
                return int(node.value)
            except ValueError as err:
                raise EvalError(f"non-integer literal {node.value}") from err
        if isinstance(node, StructureReference):
            return self.grid.lookup(self.path(node))
        if isinstance(node, IntrinsicCall):
            iname = node.intrinsic.name.upper()
            args = node.arguments
            if iname == "SIZE" and len(args) == 2 and \
                    isinstance(args[0], StructureReference):
                return self.grid.size(self.path(args[0]),
                                      self.value(args[1]))
            if iname in ("MIN", "MAX"):
                vals = [self.value(a) for a in args]
                return min(vals) if iname == "MIN" else max(vals)
            raise EvalError(f"intrinsic {iname} not evaluable")
        if isinstance(node, Reference):
            name = node.symbol.name.lower()
            if name not in self.env or self.env[name] is None:
                raise EvalError(f"variable '{name}' has no known value")
            return self.env[name]
        if isinstance(node, UnaryOperation):
            val = self.value(node.children[0])
            if node.operator == UnaryOperation.Operator.MINUS:
                return -val
            if node.operator == UnaryOperation.Operator.PLUS:
                return val
            raise EvalError(f"unary operator {node.operator}")
        if isinstance(node, BinaryOperation):
            lhs = self.value(node.children[0])
            rhs = self.value(node.children[1])
            oper = node.operator
            ops = BinaryOperation.Operator
            if oper == ops.ADD:
                return lhs + rhs
            if oper == ops.SUB:
                return lhs - rhs
            if oper == ops.MUL:
                return lhs * rhs
            if oper == ops.DIV:
                return ftn_div(lhs, rhs)
            raise EvalError(f"binary operator {oper}")
        raise EvalError(f"cannot evaluate {type(node).__name__}")

    # ---- statements ----
    def run(self, nodes):
        # pylint: disable=import-outside-toplevel,too-many-branches
        from psyclone.psyir.nodes import (Assignment, Call, CodeBlock,
                                          IfBlock, Loop, Reference, Return,
                                          StructureReference)
        for node in nodes:
            if isinstance(node, Loop):
                start = self.value(node.start_expr)
                stop = self.value(node.stop_expr)
                step = self.value(node.step_expr)
                if step == 0:
                    raise EvalError("zero loop step")
                var = node.variable.name.lower()
                trips = max(0, ftn_div(stop - start + step, step))
                val = start
                for _ in range(trips):
                    self.env[var] = val
                    self.run(node.loop_body.children)
                    val += step
                self.env[var] = val
            elif isinstance(node, Assignment):
                lhs = node.lhs
                if isinstance(lhs, StructureReference) or \
                        not isinstance(lhs, Reference) or lhs.children:
                    self.ignored.add("assign_nonscalar")
                    continue
                try:
                    self.env[lhs.symbol.name.lower()] = self.value(node.rhs)
                except EvalError:
                    self.env[lhs.symbol.name.lower()] = None
            elif isinstance(node, Call):
                rname = node.routine.symbol.name.lower() \
                    if hasattr(node.routine, "symbol") else ""
                if rname in self.kernels and \
                        not isinstance(node.routine, StructureReference):
                    args = node.arguments
                    if len(args) < 2:
                        raise EvalError(f"kernel call {rname} without i,j")
                    self.events.append((rname, self.value(args[0]),
                                        self.value(args[1])))
                    if len(self.events) > self.MAX_EVENTS:
                        raise EvalError("too many kernel calls")
                else:
                    self.ignored.add("call")
            elif isinstance(node, IfBlock):
                inner_calls = [c for c in node.walk(Call)
                               if hasattr(c.routine, "symbol") and
                               c.routine.symbol.name.lower() in self.kernels]
                if inner_calls or node.walk(Loop):
                    raise EvalError("kernel call or loop inside an IF block")
                self.ignored.add("if")
            elif isinstance(node, CodeBlock):
                txt = "\n".join(str(n) for n in node.get_ast_nodes).lower()
                if any(k in txt for k in self.kernels) or "do " in txt:
                    raise EvalError("kernel call or loop inside a CodeBlock")
                self.ignored.add("codeblock")
            elif isinstance(node, Return):
                return
            else:
                # directive nodes do not survive the text round trip
                raise EvalError(f"unexpected statement "
                                f"{type(node).__name__}")


def run_invoke(routine, grid, kernel_codes):
    """Evaluate the invoke routine on the mock grid. Returns the list of
    (kernel-subroutine-name, i, j) events in execution order."""
    runner = _Runner(grid, kernel_codes)
    runner.run(routine.children)
    return runner.events, sorted(runner.ignored)


def summarise(events):
    """-> (per-kernel {point: count}, per-point kernel sequence)"""
    counts, seqs = {}, {}
    for name, i, j in events:
        per = counts.setdefault(name, {})
        per[(i, j)] = per.get((i, j), 0) + 1
        seqs.setdefault((i, j), []).append(name)
    return counts, seqs


def fmt_region(reg):
    return f"i={reg[0]}..{reg[1]}, j={reg[2]}..{reg[3]}"


def fmt_points(pts, limit=8):
    pts = sorted(pts)
    txt = ", ".join(f"({i},{j})" for i, j in pts[:limit])
    return txt + (", ..." if len(pts) > limit else "")
