"""Generator of LFRic invokes whose kernel metadata is written by the
harness (used by C22).

A *spec* is a JSON-able dict, which is at the same time the harness's own
record of every access (nothing is ever asked of PSyclone's objects)::

    {"fields": ["w0", "w3", ...],        # actual function space of f0, f1, ..
     "calls": [
        {"kind": "kern",
         "args": [{"f": 0, "acc": "gh_inc", "space": "w0"},
                  {"f": 1, "acc": "gh_read", "space": "any_space_1",
                   "st": "cross", "ext": 2},            # literal extent
                  {"f": 2, "acc": "gh_read", "space": "w3",
                   "st": "xory1d", "ext": "ext0", "dir": "y_direction"}]},
        {"kind": "builtin", "name": "setval_x", "fields": [0, 3]}],
     "vectors": {"2": 3},                # f2 is a field vector of size 3
     "extents": {"ext0": 1},             # run-time values of extent variables
     "annexed": false}                   # COMPUTE_ANNEXED_DOFS

Metadata validity (doc/user_guide/dynamo0p3.rst, "Valid Access Modes",
"Stencil Metadata", "Supported Function Spaces"):
  * discontinuous metadata space: GH_READ / GH_WRITE / GH_READWRITE;
  * continuous or ANY_SPACE_n / ANY_W2: GH_READ / GH_WRITE / GH_INC /
    GH_READINC;
  * a stencil only together with GH_READ; >= 1 modified argument;
  * arguments sharing an ANY_*SPACE_n label are on the same actual space.
"""
import os
import re

from hypothesis import strategies as st

CONTINUOUS = ["w0", "w1", "w2", "w2h", "w2trace", "w2htrace"]
DISCONTINUOUS = ["w3", "wtheta", "w2v", "w2broken", "w2vtrace"]
ANY_W2_MEMBERS = ["w2", "w2h", "w2v", "w2broken"]
STENCILS = ["cross", "region", "x1d", "y1d", "xory1d", "cross2d"]
READ_ACCESSES = ("gh_read", "gh_readwrite", "gh_inc", "gh_readinc")
WRITE_ACCESSES = ("gh_write", "gh_readwrite", "gh_inc", "gh_readinc")

# built-in: (argument template, index of written field, access of written
# field, indices of the read-only fields) -- positions refer to "fields"
BUILTINS = {
    "setval_c": ("{0}, {c}", "gh_write", 1),
    "setval_x": ("{0}, {1}", "gh_write", 2),
    "x_plus_y": ("{0}, {1}, {2}", "gh_write", 3),
    "inc_x_plus_y": ("{0}, {1}", "gh_readwrite", 2),
    "inc_a_times_x": ("{c}, {0}", "gh_readwrite", 1),
}


def is_continuous_space(space):
    """Continuity of an ACTUAL function space."""
    if space in CONTINUOUS:
        return True
    if space in DISCONTINUOUS:
        return False
    raise ValueError(f"not an actual function space: {space}")


def meta_class(space):
    """'cont' | 'disc' | 'unknown' for a METADATA function-space name."""
    space = space.lower()
    if space in CONTINUOUS:
        return "cont"
    if space in DISCONTINUOUS or \
            re.fullmatch(r"any_discontinuous_space_\d+", space):
        return "disc"
    if re.fullmatch(r"any_space_\d+", space) or space == "any_w2":
        return "unknown"
    raise ValueError(f"unknown metadata space {space}")


def compatible(meta, actual):
    """May a field on `actual` be passed to an argument declared `meta`?"""
    cls = meta_class(meta)
    if meta == actual:
        return True
    if meta == "any_w2":
        return actual in ANY_W2_MEMBERS
    if cls == "unknown":
        return True
    if cls == "disc" and meta.startswith("any_"):
        return actual in DISCONTINUOUS
    return False


def vector_size(spec, fld):
    """Size of field vector `fld` (1 = plain field)."""
    return int(spec.get("vectors", {}).get(str(fld), 1))


def valid_spec(spec):
    """Reason why the spec is outside the documented domain, or None."""
    # pylint: disable=too-many-return-statements, too-many-branches
    nfld = len(spec["fields"])
    if not 1 <= nfld <= 6 or not 1 <= len(spec["calls"]) <= 6:
        return "size"
    for space in spec["fields"]:
        if space not in CONTINUOUS + DISCONTINUOUS:
            return "bad actual space"
    for key, size in spec.get("vectors", {}).items():
        if not (key.isdigit() and 0 <= int(key) < nfld and 2 <= size <= 3):
            return "bad vector"
    for call in spec["calls"]:
        if call["kind"] == "builtin":
            if call["name"] not in BUILTINS:
                return "unknown builtin"
            flds = call["fields"]
            if any(vector_size(spec, f) > 1 for f in flds):
                return "vector passed to a builtin"
            if len(flds) != BUILTINS[call["name"]][2]:
                return "builtin arity"
            if len(set(flds)) != len(flds):
                return "field passed twice"
            if any(not 0 <= f < nfld for f in flds):
                return "bad field"
            if len({spec["fields"][f] for f in flds}) != 1:
                return "builtin fields on different spaces"
            continue
        args = call["args"]
        if not args:
            return "no args"
        if len({a["f"] for a in args}) != len(args):
            return "field passed twice"
        labels = {}
        writers = 0
        for arg in args:
            if not 0 <= arg["f"] < nfld:
                return "bad field"
            actual = spec["fields"][arg["f"]]
            try:
                cls = meta_class(arg["space"])
            except ValueError:
                return "bad metadata space"
            if not compatible(arg["space"], actual):
                return "metadata space incompatible with field"
            if arg["space"].startswith("any_"):
                if labels.setdefault(arg["space"], actual) != actual:
                    return "one any-space label on two spaces"
            acc = arg["acc"]
            if acc not in READ_ACCESSES + ("gh_write",):
                return "bad access"
            if cls == "disc" and acc in ("gh_inc", "gh_readinc"):
                return "inc on discontinuous"
            if cls != "disc" and acc == "gh_readwrite":
                return "readwrite on continuous"
            if acc != "gh_read":
                writers += 1
            if arg.get("st"):
                if acc != "gh_read":
                    return "stencil on non-read"
                if arg["st"] not in STENCILS:
                    return "bad stencil"
                ext = arg.get("ext")
                if isinstance(ext, str):
                    if ext not in spec.get("extents", {}):
                        return "unknown extent variable"
                    ext = spec["extents"][ext]
                if not isinstance(ext, int) or not 1 <= ext <= 3:
                    return "bad extent"
                if arg["st"] == "xory1d" and arg.get("dir") not in (
                        "x_direction", "y_direction"):
                    return "bad direction"
        if not writers:
            return "kernel writes nothing"
    return None


# --------------------------------------------------------------------------
# sources
# --------------------------------------------------------------------------
def kernel_source(name, args, sizes=None):
    lines = [f"module {name}_mod",
             "  use argument_mod", "  use fs_continuity_mod",
             "  use kernel_mod", "  use constants_mod",
             "  implicit none",
             f"  type, extends(kernel_type) :: {name}_type",
             f"     type(arg_type), dimension({len(args)}) :: meta_args = (/ &"]
    for idx, arg in enumerate(args):
        sep = ", &" if idx + 1 < len(args) else "  &"
        sten = f", stencil({arg['st']})" if arg.get("st") else ""
        size = sizes[idx] if sizes else 1
        kind = f"gh_field*{size}" if size > 1 else "gh_field"
        lines.append(f"          arg_type({kind}, gh_real, {arg['acc']}, "
                     f"{arg['space']}{sten}){sep}")
    lines += ["          /)",
              "     integer :: operates_on = cell_column",
              "   contains",
              f"     procedure, nopass :: code => {name}_code",
              f"  end type {name}_type",
              "contains",
              f"  subroutine {name}_code()",
              f"  end subroutine {name}_code",
              f"end module {name}_mod", ""]
    return "\n".join(lines)


def kernel_name(idx):
    return f"c22k{idx}"


def algorithm_source(spec):
    nfld = len(spec["fields"])
    lines = ["program c22_alg",
             "  use constants_mod, only: i_def, r_def",
             "  use field_mod, only: field_type",
             "  use flux_direction_mod, only: x_direction, y_direction"]
    for idx, call in enumerate(spec["calls"]):
        if call["kind"] == "kern":
            lines.append(f"  use {kernel_name(idx)}_mod, only: "
                         f"{kernel_name(idx)}_type")
    lines.append("  implicit none")
    lines.append("  type(field_type) :: " + ", ".join(
        f"f{i}({vector_size(spec, i)})" if vector_size(spec, i) > 1
        else f"f{i}" for i in range(nfld)))
    for name in sorted(spec.get("extents", {})):
        lines.append(f"  integer(i_def) :: {name}")
    lines.append("  call invoke( &")
    ncall = len(spec["calls"])
    for idx, call in enumerate(spec["calls"]):
        sep = ", &" if idx + 1 < ncall else "  &"
        if call["kind"] == "builtin":
            templ = BUILTINS[call["name"]][0]
            text = templ.format(*[f"f{f}" for f in call["fields"]],
                                c=f"{idx + 1}.5_r_def")
            lines.append(f"       {call['name']}({text}){sep}")
            continue
        items = []
        for arg in call["args"]:
            items.append(f"f{arg['f']}")
            if arg.get("st"):
                items.append(str(arg["ext"]))
                if arg["st"] == "xory1d":
                    items.append(arg["dir"])
        lines.append(f"       {kernel_name(idx)}_type({', '.join(items)})"
                     f"{sep}")
    lines.append("       )")
    lines.append("end program c22_alg")
    return "\n".join(lines) + "\n"


def write_sources(dirname, spec):
    """Write kernel modules + algorithm; returns the algorithm path."""
    for idx, call in enumerate(spec["calls"]):
        if call["kind"] == "kern":
            path = os.path.join(dirname, f"{kernel_name(idx)}_mod.f90")
            with open(path, "w") as fout:
                fout.write(kernel_source(
                    kernel_name(idx), call["args"],
                    [vector_size(spec, a["f"]) for a in call["args"]]))
    alg = os.path.join(dirname, "c22_alg.f90")
    with open(alg, "w") as fout:
        fout.write(algorithm_source(spec))
    return alg


# --------------------------------------------------------------------------
# the harness's own record of the accesses of each call
# --------------------------------------------------------------------------
def call_records(spec):
    """For each call: {"kind", "name", "args": [{"f", "acc", "meta",
    "stencil", "extent" (int, evaluated)}]} (built-ins: metadata space
    any_space_1 as in lfric_builtins_mod.f90)."""
    recs = []
    for idx, call in enumerate(spec["calls"]):
        if call["kind"] == "builtin":
            _, wacc, _ = BUILTINS[call["name"]]
            args = []
            for pos, fld in enumerate(call["fields"]):
                args.append({"f": fld,
                             "acc": wacc if pos == 0 else "gh_read",
                             "meta": "any_space_1", "stencil": None,
                             "extent": 0})
            recs.append({"kind": "builtin", "name": call["name"],
                         "args": args})
            continue
        args = []
        for arg in call["args"]:
            ext = 0
            if arg.get("st"):
                ext = arg["ext"]
                if isinstance(ext, str):
                    ext = spec["extents"][ext]
            args.append({"f": arg["f"], "acc": arg["acc"],
                         "meta": arg["space"], "stencil": arg.get("st"),
                         "extent": int(ext)})
        recs.append({"kind": "kern", "name": f"{kernel_name(idx)}_code",
                     "args": args})
    return recs


# --------------------------------------------------------------------------
# Hypothesis strategy
# --------------------------------------------------------------------------
@st.composite
def invoke_specs(draw, max_calls=5, stencil_types=None, builtins=True,
                 vectors_ok=True):
    """Specs of 1-5 calls over 2-5 fields."""
    # pylint: disable=too-many-locals, too-many-branches, too-many-statements
    stencil_types = stencil_types or STENCILS
    nfld = draw(st.integers(2, 5))
    # few distinct spaces so that built-ins and any-space labels can share
    ncont, ndisc = draw(st.sampled_from(
        [(1, 1), (1, 1), (1, 1), (2, 1), (1, 2), (1, 0), (2, 0), (0, 1)]))
    pool = draw(st.permutations(CONTINUOUS))[:ncont] + \
        draw(st.permutations(DISCONTINUOUS))[:ndisc]
    fields = [draw(st.sampled_from(pool)) for _ in range(nfld)]
    vectors = {}
    if vectors_ok and draw(st.integers(0, 3)) == 0:
        for fld in range(nfld):
            if draw(st.integers(0, 2)) == 0:
                vectors[str(fld)] = draw(st.integers(2, 3))
    ncall = draw(st.integers(1, max_calls))
    extents = {}
    calls = []
    for _ in range(ncall):
        if builtins and draw(st.integers(0, 3)) == 0:
            name = draw(st.sampled_from(sorted(BUILTINS)))
            arity = BUILTINS[name][2]
            first = draw(st.integers(0, nfld - 1))
            same = [i for i in range(nfld)
                    if fields[i] == fields[first] and i != first
                    and str(i) not in vectors]
            if len(same) >= arity - 1 and str(first) not in vectors:
                others = draw(st.permutations(same))[:arity - 1]
                calls.append({"kind": "builtin", "name": name,
                              "fields": [first] + list(others)})
                continue
        nargs = draw(st.integers(1, min(4, nfld)))
        flds = draw(st.permutations(list(range(nfld))))[:nargs]
        any_idx = {}          # actual space -> n of any_space_n
        anyd_idx = {}
        anyw2 = [None]
        args = []
        for fld in flds:
            actual = fields[fld]
            disc = actual in DISCONTINUOUS
            choice = draw(st.integers(0, 5))
            space = actual
            if choice == 4:
                num = any_idx.setdefault(actual, len(any_idx) + 1)
                space = f"any_space_{num}"
            elif choice == 5 and disc:
                num = anyd_idx.setdefault(actual, len(anyd_idx) + 1)
                space = f"any_discontinuous_space_{num}"
            elif choice == 5 and actual in ANY_W2_MEMBERS and \
                    anyw2[0] in (None, actual):
                anyw2[0] = actual
                space = "any_w2"
            cls = meta_class(space)
            if cls == "disc":
                accs = ["gh_read", "gh_read", "gh_write", "gh_readwrite"]
            else:
                accs = ["gh_read", "gh_read", "gh_write", "gh_inc",
                        "gh_inc", "gh_readinc"]
            acc = draw(st.sampled_from(accs))
            arg = {"f": fld, "acc": acc, "space": space}
            if acc == "gh_read" and draw(st.integers(0, 2)) == 0:
                arg["st"] = draw(st.sampled_from(stencil_types))
                if draw(st.integers(0, 2)) == 0:
                    name = f"ext{draw(st.integers(0, 1))}"
                    if name not in extents:
                        extents[name] = draw(st.integers(1, 3))
                    arg["ext"] = name
                else:
                    arg["ext"] = draw(st.sampled_from([1, 1, 2, 2, 3]))
                if arg["st"] == "xory1d":
                    arg["dir"] = draw(st.sampled_from(
                        ["x_direction", "y_direction"]))
            args.append(arg)
        if all(a["acc"] == "gh_read" for a in args):
            # at least one modified argument: the first one without stencil,
            # else the first one
            tgt = next((a for a in args if not a.get("st")), args[0])
            for key in ("st", "ext", "dir"):
                tgt.pop(key, None)
            cls = meta_class(tgt["space"])
            tgt["acc"] = draw(st.sampled_from(
                ["gh_write", "gh_readwrite"] if cls == "disc"
                else ["gh_inc", "gh_write", "gh_readinc"]))
        calls.append({"kind": "kern", "args": args})
    used = {a["ext"] for c in calls if c["kind"] == "kern"
            for a in c["args"] if isinstance(a.get("ext"), str)}
    extents = {k: v for k, v in extents.items() if k in used}
    spec = {"fields": fields, "calls": calls, "extents": extents,
            "annexed": draw(st.booleans())}
    if vectors:
        spec["vectors"] = vectors
    return spec
