"""C24, static family: invokes that mix stencil and quadrature kernels.

The executable kernels of stubs/kernels/ have neither stencils nor
quadrature, so the arguments PSyclone ADDS to an invoke's argument list
(stencil extents / directions passed as variables, quadrature objects) are
covered here, without running anything:

  * an algorithm file is generated whose invokes call the repository's own
    test kernels (tests/test_files/dynamo0p3: testkern, testkern_qr,
    testkern_stencil, testkern_stencil_xory1d, testkern_stencil_multi) and a
    built-in, with field / extent / direction / quadrature names drawn from
    small pools (shared and distinct entities, literal and variable extents);
  * generator.generate() produces the algorithm and PSy layers (dm on/off);
  * every `call invoke_x(actuals)` is compared POSITION BY POSITION with the
    dummy list of `subroutine invoke_x` in the PSy layer: same count, and the
    type the algorithm file declares for the actual equals the type the PSy
    layer declares for the dummy (field_type / integer / real /
    quadrature_xyoz_type).
"""
import os
import re
import shutil

from hypothesis import strategies as st

from vlib import gen_lfric_alg as G

FIELDS = ["f1", "f2", "f3", "f4", "m1", "m2"]
EXTENTS = ["extent", "ext2", "f2_extent"]
DIRECTIONS = ["direction", "dir2"]
QRS = ["qr", "qr2"]
DECL_TYPE = {**{f: "field_type" for f in FIELDS},
             **{e: "integer" for e in EXTENTS + DIRECTIONS + ["istp"]},
             **{q: "quadrature_xyoz_type" for q in QRS},
             "a": "real", "b": "real"}

# kernel -> argument roles in algorithm order
KERNELS = {
    "testkern_type": ("testkern_mod", ["real", "field", "field", "field",
                                       "field"]),
    "testkern_qr_type": ("testkern_qr_mod",
                         ["field", "field", "field", "real", "field",
                          "istp", "qr"]),
    "testkern_stencil_type": ("testkern_stencil_mod",
                              ["field", "field", "extent", "field",
                               "field"]),
    "testkern_stencil_xory1d_type": ("testkern_stencil_xory1d_mod",
                                     ["field", "field", "extent",
                                      "direction", "field", "field"]),
    "testkern_stencil_multi_type": ("testkern_stencil_multi_mod",
                                    ["field", "field", "extent", "field",
                                     "extent", "direction", "field",
                                     "extent"]),
}


@st.composite
def cases(draw):
    invokes = []
    for _ in range(draw(st.integers(1, 2))):
        calls = []
        for _ in range(draw(st.integers(1, 3))):
            kname = draw(st.sampled_from(sorted(KERNELS) +
                                         ["testkern_qr_type",
                                          "testkern_stencil_type"]))
            args = []
            # a field may be passed to one kernel only once
            pool = list(draw(st.permutations(FIELDS)))
            for role in KERNELS[kname][1]:
                if role == "field":
                    args.append(pool.pop())
                elif role == "real":
                    args.append(draw(st.sampled_from(["a", "b", "2.0_r_def"])))
                elif role == "istp":
                    args.append(draw(st.sampled_from(["istp", "3_i_def"])))
                elif role == "extent":
                    args.append(draw(st.sampled_from(EXTENTS + ["2"])))
                elif role == "direction":
                    args.append(draw(st.sampled_from(
                        DIRECTIONS + ["x_direction"])))
                elif role == "qr":
                    args.append(draw(st.sampled_from(QRS)))
            calls.append([kname, args])
        name = draw(st.sampled_from([None, "mix", "Sten_QR"]))
        invokes.append({"name": name, "calls": calls})
    names = [i["name"] for i in invokes if i["name"]]
    if len(set(n.lower() for n in names)) != len(names):
        invokes[-1]["name"] = None
    return {"invokes": invokes, "dm": draw(st.booleans())}


def algorithm_text(case):
    mods = sorted({KERNELS[c[0]][0] + ", only: " + c[0]
                   for inv in case["invokes"] for c in inv["calls"]})
    lines = ["module c24s_alg_mod", "contains", "subroutine c24s_alg()",
             "  use constants_mod, only: r_def, i_def",
             "  use field_mod, only: field_type",
             "  use quadrature_xyoz_mod, only: quadrature_xyoz_type",
             "  use flux_direction_mod, only: x_direction"]
    lines += [f"  use {m}" for m in mods]
    lines += ["  implicit none",
              "  type(field_type) :: " + ", ".join(FIELDS),
              "  type(quadrature_xyoz_type) :: " + ", ".join(QRS),
              "  integer(i_def) :: " +
              ", ".join(EXTENTS + DIRECTIONS + ["istp"]),
              "  real(r_def) :: a, b"]
    for inv in case["invokes"]:
        parts = []
        if inv["name"]:
            parts.append(f"name=\"{inv['name']}\"")
        parts += [f"{k}({', '.join(a)})" for k, a in inv["calls"]]
        lines.append("  call invoke( " + ", &\n       ".join(parts) + " )")
    lines += ["end subroutine c24s_alg", "end module c24s_alg_mod"]
    return "\n".join(lines) + "\n"


_DECL = re.compile(r"^\s*(type\s*\(\s*(\w+)\s*\)|integer|real|logical)"
                   r"[^:]*::\s*(.*)$", re.I)


def dummy_types(psy_text, routine):
    """{dummy name lower: type token} from the declarations of `routine`."""
    text = G._join_continuations(psy_text)
    mat = re.search(r"^\s*subroutine\s+" + re.escape(routine) +
                    r"\s*\(.*?^\s*end\s+subroutine", text,
                    re.M | re.I | re.S)
    out = {}
    if not mat:
        return out
    for line in mat.group(0).splitlines():
        dec = _DECL.match(line)
        if not dec:
            continue
        typ = (dec.group(2) or dec.group(1)).lower()
        for ent in G._split_args(dec.group(3)):
            name = re.match(r"\w+", ent.strip())
            if name:
                out.setdefault(name.group(0).lower(), typ)
    return out


def actual_type(text):
    low = text.strip().lower()
    base = re.match(r"[a-z]\w*", low)
    if base and base.group(0) in DECL_TYPE:
        return DECL_TYPE[base.group(0)]
    if low == "x_direction":
        return "integer"
    if re.fullmatch(r"[-+]?\d+(_i_def)?", low):
        return "integer"
    if re.fullmatch(r"[-+]?\d+\.\d*(_r_def)?", low):
        return "real"
    return None


def generate(case, workdir, repo):
    """-> ('ok', alg_text, psy_text) | ('refused', why) | ('crash', why)"""
    from psyclone import generator
    from psyclone.configuration import Config
    from psyclone.errors import PSycloneError
    os.makedirs(workdir, exist_ok=True)
    path = os.path.join(workdir, "c24s_alg.f90")
    with open(path, "w") as fout:
        fout.write(algorithm_text(case))
    # a private, flat kernel directory (the repository's directory tree
    # holds several files of the same name)
    src = os.path.join(repo, "src", "psyclone", "tests", "test_files",
                       "dynamo0p3")
    kdir = os.path.join(workdir, "kern")
    if not os.path.isdir(kdir):
        os.makedirs(kdir)
        wanted = {mod for mod, _ in KERNELS.values()}
        for name in os.listdir(src):
            if os.path.splitext(name)[0] in wanted:
                shutil.copy(os.path.join(src, name), kdir)
    Config._instance = None
    Config.get().api = "dynamo0.3"
    try:
        alg, psy = generator.generate(path, api="dynamo0.3",
                                      kernel_paths=[kdir],
                                      distributed_memory=case["dm"])
    except (PSycloneError, NotImplementedError) as err:
        return ("refused", f"{type(err).__name__}: {str(err)[:150]}")
    except Exception as err:      # pylint: disable=broad-except
        return ("crash", f"{type(err).__name__}: {str(err)[:150]}")
    finally:
        Config._instance = None
    return ("ok", str(alg), str(psy))


def judge(case, alg_text, psy_text):
    """-> None | (bucket, message)"""
    calls = G.alg_invoke_calls(alg_text)
    subs = G.psy_routines(psy_text)
    if re.search(r"^\s*call\s+invoke\s*\(", alg_text, re.M | re.I):
        return ("static2:invoke-left", "the generated algorithm layer still "
                "contains a call to invoke()")
    if len(calls) != len(case["invokes"]):
        return ("static2:call-count",
                f"{len(case['invokes'])} invokes but {len(calls)} calls")
    for name, actuals in calls:
        if name not in subs:
            return ("static2:no-routine",
                    f"the algorithm layer calls '{name}' but the PSy layer "
                    f"defines {sorted(subs)}")
        dummies = subs[name]
        if len(actuals) != len(dummies):
            return ("static2:arg-count",
                    f"call {name}({', '.join(actuals)}) but subroutine "
                    f"{name}({', '.join(dummies)})")
        types = dummy_types(psy_text, name)
        for pos, (act, dum) in enumerate(zip(actuals, dummies), 1):
            atyp = actual_type(act)
            dtyp = types.get(dum.strip().lower())
            if atyp is None or dtyp is None:
                continue
            if atyp != dtyp:
                return ("static2:type",
                        f"position {pos} of {name}: the algorithm passes "
                        f"'{act}' ({atyp}) but the PSy-layer routine "
                        f"receives it as '{dum}' ({dtyp}); call "
                        f"({', '.join(actuals)}) vs dummies "
                        f"({', '.join(dummies)})")
    return None


def nontrivial(case):
    """An invoke with >= 2 calls among whose arguments are a variable
    stencil extent/direction AND a quadrature object."""
    for inv in case["invokes"]:
        args = [a for _, arr in inv["calls"] for a in arr]
        if len(inv["calls"]) >= 2 and any(a in QRS for a in args) and \
                any(a in EXTENTS + DIRECTIONS for a in args):
            return True
    return False
