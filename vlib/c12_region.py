"""Region analysis for C12 (extraction regions record every input and
output they need): enumeration of statement ranges, PSyclone's reports
(CallTreeUtils and lowered ExtractNode), and the two dynamic oracles (trace
inclusion and poisoned replay) implemented as hooks of the shared tracing
interpreter."""
from __future__ import annotations

import re

from vlib import gen_fortran as gf
from vlib import interp as I
from vlib import psy
from vlib.runner import HarnessError

REGION_NAME = ("c12mod", "c12region")


class Fail:
    def __init__(self, oracle, source, var, inp, msg):
        self.oracle = oracle      # 'trace-in' | 'trace-out' | 'replay'
        self.source = source      # 'ctu' | 'extract'
        self.var = var            # variable name (lower case) or None
        self.inp = inp            # index of the input vector
        self.msg = msg


class RegionResult:
    def __init__(self, key, nodes):
        self.key = key            # (schedule index, i, j)
        self.nodes = nodes
        self._text = None
        self.ctu = (set(), set())
        self.extract = None
        self.labels = []
        self.nontrivial = False
        self.needed_in = set()
        self.needed_out = set()
        self.failures = []

    @property
    def text(self):
        if self._text is None:
            self._text = region_text(self.nodes)
        return self._text


class Analysis:
    def __init__(self):
        self.regions = []
        self.discards = {}

    def discard(self, why, num=1):
        self.discards[why] = self.discards.get(why, 0) + num


class ReplayProg:
    """Minimal stand-in for gen_fortran.Prog rebuilt from a stored case."""

    def __init__(self, case):
        self.uid = case["uid"]
        self.subname = "s" + case["uid"]
        self.args = []
        for name, typ, dims, role in case["args"]:
            self.args.append(gf.Var(name, typ, [tuple(d) for d in dims],
                                    role=role))
        self.inputs = case["inputs"]
        self.module_source = case["module"]


# ----------------------------------------------------------------------
# what PSyclone reports
# ----------------------------------------------------------------------
def ctu_lists(nodes):
    from psyclone.psyir.tools import CallTreeUtils
    rwi = CallTreeUtils().get_in_out_parameters(nodes)
    return ({str(sig).lower() for sig in rwi.signatures_read},
            {str(sig).lower() for sig in rwi.signatures_written})


_PSYCALL = re.compile(r"^\s*CALL\s+\w+\s*%\s*(\w+)\s*(?:\((.*)\))?\s*$",
                      re.I | re.S)


def split_args(txt):
    """Split a Fortran argument list at top-level commas."""
    out, depth, cur, quote = [], 0, "", None
    for char in txt:
        if quote:
            cur += char
            if char == quote:
                quote = None
            continue
        if char in "\"'":
            quote = char
        elif char == "(":
            depth += 1
        elif char == ")":
            depth -= 1
        elif char == "," and depth == 0:
            out.append(cur.strip())
            cur = ""
            continue
        cur += char
    if cur.strip():
        out.append(cur.strip())
    return out


class _CachedParser:
    """PSyDataNode.lower_to_language_level calls ParserFactory().create(
    std="f2008") once per generated PSyData call (about 15 per region, 10 ms
    each). create() rebuilds fparser's class tables from scratch, so a
    repeated call with the std of the previous call is a no-op: inside this
    context (the region loop of one program) such calls return the previous
    result; the first call inside the context is always a real one."""
    last = [None, None]      # std of the latest real call, its result

    def __enter__(self):
        from fparser.two import parser as fpar
        self.mod = fpar
        self.orig = fpar.ParserFactory.create
        orig = self.orig
        last = self.last

        def create(this, std=None):
            if last[1] is not None and last[0] == std:
                # the one state-dependent side effect of create()
                fpar.SYMBOL_TABLES.clear()
                return last[1]
            res = orig(this, std=std)
            last[0], last[1] = std, res
            return res
        # the first call inside the context is always a real one
        last[0] = last[1] = None
        fpar.ParserFactory.create = create
        return self

    def __exit__(self, *exc):
        self.mod.ParserFactory.create = self.orig
        return False


def extract_lists(tree, subname, key):
    """Apply ExtractTrans to the region `key` in a COPY of `tree`, lower the
    ExtractNode and read the variables handed to ProvideVariable before and
    after the region from the generated calls. Returns None if the
    transformation refuses the region, else (inputs, outputs)."""
    from psyclone.psyir.nodes import CodeBlock, ExtractNode, Schedule
    from psyclone.psyir.transformations import (ExtractTrans,
                                                TransformationError)
    sidx, first, last = key
    tree2 = tree.copy()
    sched = psy.routine_of(tree2, subname).walk(Schedule)[sidx]
    nodes = sched.children[first:last + 1]
    try:
        ExtractTrans().apply(nodes, {"region_name": REGION_NAME})
    except TransformationError:
        return None
    enodes = [nd for nd in sched.children if isinstance(nd, ExtractNode)]
    if len(enodes) != 1:
        raise HarnessError("ExtractTrans did not insert one ExtractNode")
    enodes[0].lower_to_language_level()
    ins, outs = set(), set()
    phase = "pre"
    seen_start = False
    for node in sched.children:
        if not isinstance(node, CodeBlock):
            continue
        for ast in node.get_ast_nodes:
            mat = _PSYCALL.match(str(ast))
            if not mat:
                continue
            meth = mat.group(1).lower()
            if meth == "prestart":
                seen_start = True
            elif meth == "preend":
                phase = "body"
            elif meth == "poststart":
                phase = "post"
            elif meth == "providevariable":
                args = split_args(mat.group(2) or "")
                if len(args) != 2:
                    raise HarnessError(f"unexpected PSyData call {ast}")
                (ins if phase == "pre" else outs).add(args[1].lower())
    if not seen_start:
        raise HarnessError("lowered ExtractNode has no PreStart call")
    return ins, outs


# ----------------------------------------------------------------------
# static features of the INPUT (used for labels and by the classifiers)
# ----------------------------------------------------------------------
_INQUIRY = ("LBOUND", "UBOUND", "SIZE")


def _value_refs(expr, name):
    """Does `expr` contain a reference to `name` other than as the array
    argument of an inquiry intrinsic?"""
    from psyclone.psyir.nodes import IntrinsicCall, Reference
    for ref in expr.walk(Reference):
        sym = getattr(ref, "symbol", None)
        if sym is None or sym.name.lower() != name:
            continue
        par = ref.parent
        if isinstance(par, IntrinsicCall) and \
                par.intrinsic.name in _INQUIRY and par.arguments and \
                par.arguments[0] is ref:
            continue
        return True
    return False


def first_access(nodes, name, nested=False):
    """Statically first access of variable `name` in the statement list:
    None | (kind, nested) with kind 'R' (read), 'RB' (read of a loop's own
    variable in that loop's start/stop/step), 'W' (assignment target or
    loop variable), 'RW' (argument of a call / anything else); `nested` is
    True if the access sits inside an IfBlock / Loop / WhileLoop body below
    the statement list."""
    for node in nodes:
        res = _first_in_stmt(node, name, nested)
        if res:
            return res
    return None


def _first_in_stmt(node, name, nested):
    from psyclone.psyir.nodes import (Assignment, IfBlock, Loop, Reference,
                                      WhileLoop)
    if isinstance(node, Assignment):
        if _value_refs(node.rhs, name):
            return ("R", nested)
        for child in node.lhs.children:
            if _value_refs(child, name):
                return ("R", nested)
        sym = getattr(node.lhs, "symbol", None)
        if sym is not None and sym.name.lower() == name:
            return ("W", nested)
        return None
    if isinstance(node, Loop):
        for expr in (node.start_expr, node.stop_expr, node.step_expr):
            if _value_refs(expr, name):
                # 'RB': a bound of the loop reads the loop's own variable
                return ("RB" if node.variable.name.lower() == name
                        else "R", nested)
        if node.variable.name.lower() == name:
            return ("W", nested)
        return first_access(node.loop_body.children, name, True)
    if isinstance(node, WhileLoop):
        if _value_refs(node.condition, name):
            return ("R", nested)
        return first_access(node.loop_body.children, name, True)
    if isinstance(node, IfBlock):
        if _value_refs(node.condition, name):
            return ("R", nested)
        res = first_access(node.if_body.children, name, True)
        if res is None and node.else_body is not None:
            res = first_access(node.else_body.children, name, True)
        return res
    for ref in node.walk(Reference):
        sym = getattr(ref, "symbol", None)
        if sym is not None and sym.name.lower() == name:
            return ("RW", nested)
    return None


def is_array_var(routine, name):
    from psyclone.psyir.symbols import ArrayType
    try:
        sym = routine.symbol_table.lookup(name)
    except KeyError:
        return False
    return isinstance(getattr(sym, "datatype", None), ArrayType)


def region_nodes(routine, key):
    from psyclone.psyir.nodes import Schedule
    sidx, first, last = key
    sched = routine.walk(Schedule)[sidx]
    return sched.children[first:last + 1]


def _case_facts(case):
    """(first access of case['var'] in the region, is-array) from the
    stored module source."""
    if case.get("oracle") not in ("trace-in", "replay") or \
            not case.get("var"):
        return None, False
    # the classifiers are evaluated for every failing (region, oracle,
    # source, variable): parse a module once, compute the facts once
    if _FACTS["module"] != case["module"]:
        _FACTS["module"] = case["module"]
        _FACTS["tree"] = psy.read(case["module"])
        _FACTS["facts"] = {}
    fkey = (case["uid"], tuple(case["region"]), case["var"])
    if fkey not in _FACTS["facts"]:
        rout = psy.routine_of(_FACTS["tree"], "s" + case["uid"])
        nodes = region_nodes(rout, tuple(case["region"]))
        _FACTS["facts"][fkey] = (first_access(nodes, case["var"]),
                                 is_array_var(rout, case["var"]))
    return _FACTS["facts"][fkey]


_FACTS = {"module": None, "tree": None, "facts": {}}


def cls_array_write_first(case):
    """The missing input is an ARRAY whose statically first access in the
    region is an assignment to it (element, section or whole array): the
    region read a location of the array that had not been written."""
    fac, arr = _case_facts(case)
    return bool(arr and fac and fac[0] == "W")


def cls_conditional_write_first(case):
    """The missing input is a SCALAR whose statically first access in the
    region is an assignment (or loop-variable definition) inside an IF /
    loop / WHILE body below the region: the write need not execute."""
    fac, arr = _case_facts(case)
    return bool(not arr and fac and fac[0] == "W" and fac[1])


def cls_loop_bound_reads_loop_variable(case):
    """The missing input is a loop variable whose statically first access
    in the region is a read in the start/stop/step expression of its own
    loop ('do j = j - 1, 3')."""
    fac, arr = _case_facts(case)
    return bool(not arr and fac and fac[0] == "RB")


# ----------------------------------------------------------------------
# dynamic oracles
# ----------------------------------------------------------------------
class RegionRun:
    """Interpreter hooks for one region and one input. `reports` is a list
    of (source, inputs, outputs)."""

    def __init__(self, nodes, reports, inp_no):
        self.nodes = list(nodes)
        self.reports = reports
        self.inp_no = inp_no
        self.instances = 0
        self.early_exit = 0
        self.failures = {}        # (oracle, source, var) -> Fail
        self.needed_in = set()
        self.needed_out = set()
        self.written_per_instance = []
        self.partial_array = False

    def install(self, itp):
        itp.hooks[id(self.nodes[0])] = self.enter
        for node in self.nodes[1:]:
            # only ever reached right after the first node of the same
            # statement list, whose hook has executed the whole region
            itp.hooks[id(node)] = lambda *_: None

    def add(self, oracle, source, var, msg):
        key = (oracle, source, var)
        if key not in self.failures:
            self.failures[key] = Fail(oracle, source, var, self.inp_no,
                                      f"input {self.inp_no + 1}: {msg}")

    @staticmethod
    def roots(itp, frame):
        out = {}
        for name, arr in list(frame.vars.items()) + \
                list(itp.globals.items()):
            out.setdefault(arr.root.id, (name, arr.root))
        return out

    def execute(self, itp, frame):
        """Run the region's statements; returns the control-flow exception
        that left the region early, or None."""
        try:
            for node in self.nodes:
                itp.exec_nohook(node, frame)
        except (I._Exit, I._Cycle, I._Return) as err:
            return err
        return None

    def enter(self, itp, node, frame):
        self.instances += 1
        before = self.roots(itp, frame)
        entry = {rid: list(root.data) for rid, (_, root) in before.items()}
        ev0 = len(itp.events)
        steps0 = itp.steps
        ctx0 = (itp.stmt, itp.loops)
        # ---- recorded run -------------------------------------------
        left = self.execute(itp, frame)
        steps1 = itp.steps
        events = itp.events[ev0:]
        after = self.roots(itp, frame)
        final = {rid: list(root.data) for rid, (_, root) in after.items()}
        names = {rid: name for rid, (name, _) in after.items()}
        if left is not None:
            self.early_exit += 1
        # ---- oracle 1: trace inclusion ------------------------------
        written = set()
        exposed = {}        # name -> flat index of the first exposed read
        wrote = {}          # name -> set(flat)
        wlocs = []          # (rid, flat) in first-write order
        arrays = {name for name, root in after.values() if root.bounds}
        for kind, rid, flat, _, _ in events:
            loc = (rid, flat)
            name = names.get(rid)
            if kind == "R":
                if name is not None and loc not in written:
                    exposed.setdefault(name, flat)
                    if name in wrote and name in arrays:
                        # another element was written earlier
                        self.partial_array = True
            else:
                if loc not in written:
                    written.add(loc)
                    if name is not None:
                        wlocs.append(loc)
                        wrote.setdefault(name, set()).add(flat)
        self.needed_in |= set(exposed)
        self.needed_out |= set(wrote)
        self.written_per_instance.append(frozenset(wrote))
        for source, ins, outs in self.reports:
            for name in sorted(exposed):
                if name not in ins:
                    self.add("trace-in", source, name,
                             f"{name}[flat {exposed[name]}] is read before "
                             f"any write to it inside the region but "
                             f"'{name}' is not a reported input "
                             f"{sorted(ins)}")
            for name in sorted(wrote):
                if name not in outs:
                    self.add("trace-out", source, name,
                             f"{name}[flat {min(wrote[name])}] is written "
                             f"inside the region but '{name}' is not a "
                             f"reported output {sorted(outs)}")
        # ---- oracle 2: replay from the reported inputs only ---------
        done = []
        saved_events = itp.events
        for source, ins, outs in self.reports:
            if (ins, outs) in done:
                continue
            done.append((ins, outs))
            same = [s for s, i2, o2 in self.reports
                    if (i2, o2) == (ins, outs)]
            for rid, (name, root) in after.items():
                if name in ins and rid in entry:
                    root.data[:] = entry[rid]
                else:
                    root.data[:] = [I.POISON] * len(root.data)
            itp.events = []
            itp.steps = steps0
            itp.stmt, itp.loops = ctx0
            try:
                left2 = self.execute(itp, frame)
            except I.PoisonRead as err:
                var = None
                if itp.events and itp.events[-1][0] == "R":
                    var = names.get(itp.events[-1][1])
                for src in same:
                    self.add("replay", src, var,
                             f"replay from the reported inputs "
                             f"{sorted(ins)} reads an undefined value: "
                             f"{err}")
                continue
            except I.StepLimit:
                continue
            if type(left2) is not type(left):
                for src in same:
                    self.add("replay", src, None,
                             f"replay leaves the region differently "
                             f"({type(left2).__name__} vs "
                             f"{type(left).__name__})")
                continue
            for rid, flat in wlocs:
                name, root = after[rid]
                if name in outs and root.data[flat] != final[rid][flat]:
                    for src in same:
                        self.add("replay", src, None,
                                 f"replay value of output {name}[flat "
                                 f"{flat}] is {root.data[flat]}, recorded "
                                 f"{final[rid][flat]}")
                    break
        # ---- restore the recorded state and continue ----------------
        itp.events = saved_events
        itp.steps = steps1
        itp.stmt, itp.loops = ctx0
        for rid, (_, root) in after.items():
            root.data[:] = final[rid]
        if left is not None:
            raise left
        return None


def baseline(prog, tree, ana):
    """[(input index, input, observables)] of the inputs on which the
    unmodified program runs inside the interpreter's domain."""
    good = []
    for num, inp in enumerate(prog.inputs):
        try:
            obs, _ = I.run_prog(prog, tree, inp)
        except I.Unsupported:
            ana.discard("input:unsupported")
        except I.OutOfDomain:
            ana.discard("input:out_of_domain")
        except I.InterpError:
            ana.discard("input:ill_formed")
        except RecursionError:
            ana.discard("input:recursion")
        else:
            good.append((num, inp, obs))
    return good


def region_text(nodes):
    try:
        return "".join(psy.write(node) for node in nodes)
    except Exception:       # pylint: disable=broad-except
        return "<unwritable>"


def analyse(prog, src, only=None):
    """Analyse every region (or only the region with key `only`) of the
    routine under test."""
    from psyclone.psyir.nodes import Schedule
    ana = Analysis()
    psy.reset_state()
    tree = psy.read(src)
    rout = psy.routine_of(tree, prog.subname)
    good = baseline(prog, tree, ana)
    if not good:
        ana.discard("program:no_valid_input")
        return ana
    scheds = rout.walk(Schedule)
    with _CachedParser():
        _analyse_regions(ana, prog, src, tree, scheds, good, only)
    return ana


def _analyse_regions(ana, prog, src, tree, scheds, good, only):
    from psyclone.psyir.nodes import Call, IntrinsicCall, Loop
    for sidx, sched in enumerate(scheds):
        nkids = len(sched.children)
        for first in range(nkids):
            for last in range(first, nkids):
                key = (sidx, first, last)
                if only is not None and key != tuple(only):
                    continue
                nodes = sched.children[first:last + 1]
                res = RegionResult(key, nodes)
                try:
                    res.ctu = ctu_lists(nodes)
                except NotImplementedError:
                    # documented refusal, e.g. "variable appears more than
                    # once on the left-hand side" for ib(ib(1)) = ...
                    ana.discard("region:ctu_not_implemented")
                    continue
                except Exception as err:    # pylint: disable=broad-except
                    # no lists are reported: nothing to judge
                    ana.discard("region:ctu_exception:" + psy.exc_key(err))
                    continue
                try:
                    res.extract = extract_lists(tree, prog.subname, key)
                except HarnessError:
                    raise
                except Exception as err:    # pylint: disable=broad-except
                    ana.discard("region:extract_exception:" +
                                psy.exc_key(err))
                    res.extract = None
                reports = [("ctu",) + res.ctu]
                if res.extract is not None:
                    reports.append(("extract",) + res.extract)
                runs = []
                for num, inp, obs in good:
                    run = RegionRun(nodes, reports, num)
                    itp = I.Interp(tree, trace=True)
                    run.install(itp)
                    acts = I.make_actuals(prog, inp)
                    try:
                        itp.run(prog.subname, acts)
                    except (I.Unsupported, I.OutOfDomain,
                            I.InterpError) as err:
                        raise HarnessError(
                            f"hooked run of region {key} failed although "
                            f"the plain run succeeded: "
                            f"{type(err).__name__}: {err}\n{src}") from err
                    if I.observe(prog, acts) != obs:
                        raise HarnessError(
                            f"hooked run of region {key} changed the "
                            f"program's result\n{src}")
                    runs.append(run)
                # ---- aggregate ------------------------------------
                seen = set()
                for run in runs:
                    res.needed_in |= run.needed_in
                    res.needed_out |= run.needed_out
                    for fkey, fail in run.failures.items():
                        if fkey not in seen:
                            seen.add(fkey)
                            res.failures.append(fail)
                instances = sum(run.instances for run in runs)
                res.nontrivial = any(run.needed_in and run.needed_out
                                     for run in runs)
                labs = res.labels
                labs.append("depth:0" if sidx == 0 else "depth:nested")
                labs.append("extract:accepted" if res.extract is not None
                            else "extract:refused")
                labs.append("executed" if instances else "never_executed")
                if any(run.early_exit for run in runs):
                    labs.append("left_by_exit_cycle_return")
                if any(nd.walk(Loop) for nd in nodes):
                    labs.append("has_loop")
                if any(cl for nd in nodes for cl in nd.walk(Call)
                       if not isinstance(cl, IntrinsicCall)):
                    labs.append("has_call")
                if any(run.partial_array for run in runs):
                    labs.append("class:partial_array_write_then_read")
                wsets = [ws for run in runs
                         for ws in run.written_per_instance]
                if wsets and set.union(*map(set, wsets)) != \
                        set.intersection(*map(set, wsets)):
                    labs.append("class:write_on_some_paths")
                for name in sorted(res.needed_out | res.ctu[1]):
                    fac = first_access(nodes, name)
                    if fac and fac[0] == "W" and fac[1]:
                        labs.append("class:conditional_write")
                        break
                for fail in res.failures:
                    labs.append(f"failing:{fail.oracle}:{fail.source}")
                if res.extract is not None and \
                        (res.extract[0] != res.ctu[0] or
                         res.extract[1] != res.ctu[1]):
                    labs.append("extract_lists_differ_from_ctu")
                ana.regions.append(res)
