"""Shared LFRic runtime helper (DESIGN.md section 2.5).

Builds the LFRic infrastructure bundled with PSyclone's test suite into a
scratch directory, runs PSyclone in-process on LFRic algorithm files and
compiles + runs the generated algorithm/PSy layers with a generated driver
on the infrastructure's unit-test mesh (3x3 bi-periodic planar mesh, one
process: last_dof_owned == last_dof_annexed == undf, no halo cells).

Small API (used by C20; meant for C21, C22, C24 as well):

  scratch_root(prefix)            per-run scratch dir (mkdtemp), removed at
                                  exit of the process that created it. Call
                                  it at import time of the property module
                                  (i.e. before the runner forks its shards)
                                  so that all shards share one directory.
  build_infrastructure(workdir)   copy + ``make -j16 standalone``; returns
                                  the directory holding liblfric.a and *.mod
  shared_infrastructure(root)     build-once variant for forked shards
                                  (file lock); returns the same kind of path
  generate(alg_path, dm=..., script=None, **cfg_overrides)
                                  PSyclone in-process -> (alg_text, psy_text)
  parse_algorithm(alg_path) / make_psy(invoke_info, cfg_path, dm) /
  algorithm_text(ast, psy)        parse once, several configurations
  compile_objects / link / compile_sources(workdir, sources, infra,
                                  flags=()) -> objects / exe path
  run_exe(exe, env=None)          -> stdout
  compile_and_run(workdir, sources, infra, env=None, flags=()) -> stdout
  driver_source(cases)            Fortran driver program text (see below)
  parse_driver_output(stdout)     -> {case: {"fields": {name: [Fraction]},
                                             "scalars": {name: Fraction}}}
  pattern_data(pattern, n)        the values the driver puts in a field

Driver case description (plain dicts, JSON-able)::

  {"name": "c0",                  # unique tag printed in the output
   "module": "c0_alg_mod",        # module of the *generated* algorithm layer
   "sub": "c0_alg",               # subroutine to call
   "fields": [{"name": "f1", "type": "real"|"int"|"r_solver"|"r_tran",
               "space": "W0"|"W2"|"W3"|"Wtheta",
               "pattern": [ints]}, ...],   # data(i) = pattern[(i-1) % len]
               # a name may be an element of a field array: "fv(2)"
   "scalars": [{"name": "a", "type": "real"|"int", "value": 3}, ...],
   "args": ["f1", "a", ...]}      # actual arguments of the call, in order

After the call the driver prints, for every field, all of proxy%data and,
for every scalar, its value (17 significant digits: exact round trip).
"""
from __future__ import annotations

import atexit
import fcntl
import os
import re
import shutil
import signal
import subprocess
import sys
import tempfile
from fractions import Fraction

from vlib.runner import HarnessError

REPO = os.environ.get("VERIF_REPO", "/repo")
INFRA_SRC = os.path.join(REPO, "src", "psyclone", "tests", "test_files",
                         "dynamo0p3", "infrastructure")
API = "dynamo0.3"
FFLAGS = ["-ffree-line-length-none", "-O0", "-fcheck=bounds"]

SPACES = ("W0", "W2", "W3", "Wtheta")
# (module, field type, proxy type, data kind, is real)
FIELD_TYPES = {
    "real": ("field_mod", "field_type", "field_proxy_type", "r_def", True),
    "int": ("integer_field_mod", "integer_field_type",
            "integer_field_proxy_type", "i_def", False),
    "r_solver": ("r_solver_field_mod", "r_solver_field_type",
                 "r_solver_field_proxy_type", "r_solver", True),
    "r_tran": ("r_tran_field_mod", "r_tran_field_type",
               "r_tran_field_proxy_type", "r_tran", True),
}


# --------------------------------------------------------------------------
# scratch handling
# --------------------------------------------------------------------------
def scratch_root(prefix="verif-lfric-"):
    """Create a scratch directory that is removed when the *creating*
    process exits (forked children never remove it)."""
    root = tempfile.mkdtemp(prefix=prefix)
    owner = os.getpid()

    def _cleanup():
        if os.getpid() == owner:
            shutil.rmtree(root, ignore_errors=True)

    atexit.register(_cleanup)
    try:
        if signal.getsignal(signal.SIGTERM) == signal.SIG_DFL:
            def _term(signum, frame):      # pragma: no cover
                if os.getpid() == owner:
                    sys.exit(2)
                os._exit(2)
            signal.signal(signal.SIGTERM, _term)
    except ValueError:                      # not in the main thread
        pass
    return root


def build_infrastructure(workdir, jobs=16):
    """Copy the bundled LFRic infrastructure into `workdir`/infrastructure
    and build liblfric.a (+ .mod files). Returns that directory."""
    if not os.path.isdir(INFRA_SRC):
        raise HarnessError(f"no LFRic infrastructure at {INFRA_SRC}")
    dst = os.path.join(workdir, "infrastructure")
    if os.path.exists(dst):
        shutil.rmtree(dst)
    shutil.copytree(INFRA_SRC, dst)
    env = dict(os.environ)
    env["F90"] = "gfortran"
    env["F90FLAGS"] = "-O0 -fcheck=bounds"
    env.pop("MAKEFLAGS", None)
    res = subprocess.run(["make", f"-j{jobs}", "standalone"], cwd=dst,
                         env=env, stdout=subprocess.PIPE,
                         stderr=subprocess.STDOUT, text=True)
    lib = os.path.join(dst, "liblfric.a")
    if res.returncode != 0 or not os.path.isfile(lib):
        raise HarnessError("building the LFRic infrastructure failed:\n" +
                           res.stdout[-3000:])
    return dst


def shared_infrastructure(root, jobs=16):
    """Build the infrastructure once inside `root` (shared by forked
    shards, serialised by a file lock). Returns the build directory."""
    os.makedirs(root, exist_ok=True)
    done = os.path.join(root, "infra.done")
    dst = os.path.join(root, "infrastructure")
    if os.path.exists(done):
        return dst
    with open(os.path.join(root, "infra.lock"), "w") as lock:
        fcntl.flock(lock, fcntl.LOCK_EX)
        try:
            if not os.path.exists(done):
                build_infrastructure(root, jobs=jobs)
                with open(done, "w") as fout:
                    fout.write("ok\n")
        finally:
            fcntl.flock(lock, fcntl.LOCK_UN)
    return dst


def include_flags(infra):
    """-I flags for every sub-directory of a built infrastructure."""
    flags = []
    for name in sorted(os.listdir(infra)):
        path = os.path.join(infra, name)
        if os.path.isdir(path):
            flags += ["-I", path]
    return flags


# --------------------------------------------------------------------------
# PSyclone in-process
# --------------------------------------------------------------------------
def write_config(path, **overrides):
    """Write a copy of $PSYCLONE_CONFIG to `path` with `KEY = value`
    entries replaced (keys as in the file, e.g. COMPUTE_ANNEXED_DOFS,
    DISTRIBUTED_MEMORY, REPRODUCIBLE_REDUCTIONS, REPROD_PAD_SIZE)."""
    src = os.environ.get("PSYCLONE_CONFIG",
                         os.path.join(REPO, "config", "psyclone.cfg"))
    with open(src) as fin:
        text = fin.read()
    for key, val in overrides.items():
        if isinstance(val, bool):
            val = "true" if val else "false"
        pat = re.compile(rf"^{re.escape(key)}\s*=.*$", re.M | re.I)
        if not pat.search(text):
            raise HarnessError(f"config key {key} not in {src}")
        text = pat.sub(f"{key} = {val}", text, count=1)
    with open(path, "w") as fout:
        fout.write(text)
    return path


def load_config(cfg_path):
    """Reset PSyclone's global state and load the given config file."""
    from vlib import psy as vpsy
    from psyclone.configuration import Config
    vpsy.reset_state()
    Config._instance = None
    Config.get(do_not_load_file=True).load(cfg_path)
    return Config.get()


def generate(alg_path, dm=True, script=None, kernel_paths=None, api=API,
             **cfg_overrides):
    """Run PSyclone in-process on an LFRic algorithm file.

    `cfg_overrides` are written into a per-call copy of the configuration
    file (e.g. COMPUTE_ANNEXED_DOFS=True). `script` is the path of a
    transformation script defining trans(psy). Returns (alg_text,
    psy_text); PSyclone's exceptions propagate to the caller."""
    from psyclone import generator
    cfg = alg_path + ".cfg"
    write_config(cfg, **cfg_overrides)
    conf = load_config(cfg)
    conf.api = api
    if script is not None:
        # handle_script() uses __import__: drop a stale module of that name
        sys.modules.pop(os.path.splitext(os.path.basename(script))[0], None)
    alg, psy = generator.generate(alg_path, api=api,
                                  kernel_paths=kernel_paths or [],
                                  script_name=script,
                                  distributed_memory=dm)
    return str(alg), str(psy)


def parse_algorithm(alg_path, api=API, kernel_paths=None):
    """Parse an algorithm file once: -> (fparser1 ast, invoke_info). The
    result can be given to several make_psy() calls (one per configuration),
    the same pattern the repository's LFRic tests use."""
    from psyclone.parse.algorithm import parse
    return parse(alg_path, api=api, invoke_name="invoke",
                 kernel_paths=kernel_paths or [])


def make_psy(invoke_info, cfg_path, dm=True, api=API):
    """Load the configuration file `cfg_path` (see write_config) and create
    a fresh PSy object; the caller may transform psy.invokes.invoke_list[i]
    .schedule and then takes str(psy.gen)."""
    from psyclone.psyGen import PSyFactory
    conf = load_config(cfg_path)
    conf.api = api
    return PSyFactory(api, distributed_memory=dm).create(invoke_info)


def algorithm_text(ast, psy):
    """Generated algorithm layer for a parsed file (call it last: it
    rewrites `ast` in place)."""
    from psyclone.alg_gen import Alg
    return str(Alg(ast, psy).gen)


# --------------------------------------------------------------------------
# compile and run
# --------------------------------------------------------------------------
class CompileError(HarnessError):
    """gfortran rejected the sources (message = compiler output)."""


class RunError(HarnessError):
    """The executable failed (message = output)."""


def compile_objects(workdir, sources, infra, flags=(), mod_dirs=()):
    """Compile each source (path relative to / inside `workdir`, modules
    before their users) to an object file in `workdir`; .mod files are
    written to `workdir` and searched there, in `mod_dirs` and in the
    infrastructure. Returns the list of object paths. Raises CompileError
    (message = compiler output; the caller decides what that means)."""
    objs = []
    inc = include_flags(infra)
    for extra in mod_dirs:
        inc = ["-I", extra] + inc
    for src in sources:
        obj = os.path.join(
            workdir, os.path.splitext(os.path.basename(src))[0] + ".o")
        cmd = (["gfortran"] + FFLAGS + list(flags) + inc +
               ["-c", src, "-o", obj])
        res = subprocess.run(cmd, cwd=workdir, stdout=subprocess.PIPE,
                             stderr=subprocess.STDOUT, text=True)
        if res.returncode != 0:
            raise CompileError(f"{os.path.basename(src)}:\n" +
                               res.stdout[-6000:])
        objs.append(obj)
    return objs


def link(workdir, objs, infra, flags=(), exe="a.out"):
    exe = os.path.join(workdir, exe)
    cmd = (["gfortran"] + list(flags) + list(objs) +
           ["-o", exe, "-L", infra, "-llfric"])
    res = subprocess.run(cmd, cwd=workdir, stdout=subprocess.PIPE,
                         stderr=subprocess.STDOUT, text=True)
    if res.returncode != 0:
        raise CompileError("link:\n" + res.stdout[-6000:])
    return exe


def compile_sources(workdir, sources, infra, flags=(), exe="a.out"):
    """compile_objects + link."""
    objs = compile_objects(workdir, sources, infra, flags)
    return link(workdir, objs, infra, flags, exe)


def run_exe(exe, env=None, timeout=900, args=()):
    """Run an executable (env: extra environment, e.g. OMP_NUM_THREADS;
    args: command-line arguments, the generated driver accepts the 1-based
    number of the only case to run); returns stdout+stderr; RunError on a
    non-zero exit status."""
    full = dict(os.environ)
    full.update(env or {})
    try:
        res = subprocess.run([exe] + [str(a) for a in args],
                             cwd=os.path.dirname(exe), env=full,
                             stdout=subprocess.PIPE,
                             stderr=subprocess.STDOUT,
                             text=True, errors="replace", timeout=timeout)
    except subprocess.TimeoutExpired as err:
        raise HarnessError(f"{exe} did not finish in {timeout}s") from err
    if res.returncode != 0:
        raise RunError(f"exit {res.returncode}:\n" + res.stdout[-4000:])
    return res.stdout


def compile_and_run(workdir, sources, infra, env=None, flags=()):
    """Compile the Fortran sources against the infrastructure, run the
    executable and return its stdout."""
    return run_exe(compile_sources(workdir, sources, infra, flags), env)


# --------------------------------------------------------------------------
# driver
# --------------------------------------------------------------------------
def pattern_data(pattern, ndof):
    """Values the driver stores in a field of ndof DoFs."""
    return [pattern[i % len(pattern)] for i in range(ndof)]


def _base(name):
    return name.split("(")[0]


def _driver_case(case):
    tag = case["name"]
    out = [f"subroutine drv_{tag}()",
           f"  use {case['module']}, only: {case['sub']}"]
    decls, body, prints = [], [], []
    used_types = sorted({f["type"] for f in case["fields"]})
    for typ in used_types:
        mod, ftype, ptype, _, _ = FIELD_TYPES[typ]
        out.append(f"  use {mod}, only: {ftype}, {ptype}")
    # field declarations (arrays of fields for names like fv(2))
    dims = {}
    ftypes = {}
    for fld in case["fields"]:
        base = _base(fld["name"])
        ftypes[base] = fld["type"]
        if "(" in fld["name"]:
            idx = int(fld["name"].split("(")[1].rstrip(")"))
            dims[base] = max(dims.get(base, 0), idx)
        else:
            dims.setdefault(base, 0)
    for base, dim in dims.items():
        _, ftype, _, _, _ = FIELD_TYPES[ftypes[base]]
        decls.append(f"  type({ftype}) :: {base}" +
                     (f"({dim})" if dim else ""))
    for typ in used_types:
        _, _, ptype, _, _ = FIELD_TYPES[typ]
        decls.append(f"  type({ptype}) :: prx_{typ}")
    for num, fld in enumerate(case["fields"]):
        _, _, _, kind, isreal = FIELD_TYPES[fld["type"]]
        pat = [int(v) for v in fld["pattern"]]
        plen = len(pat)
        decls.append(f"  integer, parameter :: pat{num}({plen}) = (/ " +
                     ", ".join(str(v) for v in pat) + " /)")
        nam = fld["name"]
        spc = fld["space"].lower()
        label = nam.replace("(", "_").replace(")", "")
        body.append(f"  call {nam}%initialise(vector_space=fs_{spc}, "
                    f"name=\"{label}\")")
        body.append(f"  prx_{fld['type']} = {nam}%get_proxy()")
        conv = (f"real(pat{num}(mod(i-1,{plen})+1), {kind})" if isreal
                else f"int(pat{num}(mod(i-1,{plen})+1), {kind})")
        body.append(f"  do i = 1, size(prx_{fld['type']}%data)")
        body.append(f"    prx_{fld['type']}%data(i) = {conv}")
        body.append("  end do")
        prints.append(f"  prx_{fld['type']} = {nam}%get_proxy()")
        prints.append(f"  write(*,'(A,1X,A,1X,A,1X,I0)') 'F', '{tag}', "
                      f"'{nam}', size(prx_{fld['type']}%data)")
        fmt = "(4(1X,ES25.17E3))" if isreal else "(8(1X,I0))"
        prints.append(f"  write(*,'{fmt}') prx_{fld['type']}%data")
    for sca in case["scalars"]:
        if sca["type"] == "real":
            decls.append(f"  real(r_def) :: {sca['name']}")
            body.append(f"  {sca['name']} = real({int(sca['value'])}, r_def)")
            prints.append(f"  write(*,'(A,1X,A,1X,A,1X,ES25.17E3)') 'S', "
                          f"'{tag}', '{sca['name']}', {sca['name']}")
        else:
            decls.append(f"  integer(i_def) :: {sca['name']}")
            body.append(f"  {sca['name']} = {int(sca['value'])}_i_def")
            prints.append(f"  write(*,'(A,1X,A,1X,A,1X,I0)') 'S', '{tag}', "
                          f"'{sca['name']}', {sca['name']}")
    out += decls
    out.append("  integer :: i")
    out.append(f"  write(*,'(A,1X,A)') 'CASE', '{tag}'")
    out += body
    out.append(f"  call {case['sub']}(" + ", ".join(case["args"]) + ")")
    out += prints
    out.append(f"  write(*,'(A,1X,A)') 'END', '{tag}'")
    out.append(f"end subroutine drv_{tag}")
    return "\n".join(out)


_DRIVER_HEAD = """\
program lfric_driver
  use global_mesh_base_mod, only: global_mesh_base_type
  use mesh_mod,             only: mesh_type, PLANE
  use partition_mod,        only: partition_type, partitioner_planar, &
                                  partitioner_interface
  use extrusion_mod,        only: uniform_extrusion_type
  use function_space_mod,   only: function_space_type
  use fs_continuity_mod,    only: W0, W2, W3, Wtheta
  use constants_mod,        only: r_def, i_def, r_solver, r_tran
  implicit none
  type(global_mesh_base_type), target        :: global_mesh
  class(global_mesh_base_type), pointer      :: global_mesh_ptr
  type(partition_type)                       :: partition
  type(mesh_type), target                    :: mesh
  type(uniform_extrusion_type), target       :: extrusion
  type(uniform_extrusion_type), pointer      :: extrusion_ptr
  procedure (partitioner_interface), pointer :: partitioner_ptr
  type(function_space_type), target  :: vs_w0, vs_w2, vs_w3, vs_wtheta
  type(function_space_type), pointer :: fs_w0, fs_w2, fs_w3, fs_wtheta
  character(len=32) :: only_arg
  integer :: only

  ! optional argument: number of the only case to run (default: all)
  only = 0
  if (command_argument_count() >= 1) then
    call get_command_argument(1, only_arg)
    read(only_arg, *) only
  end if
  ! unit-test constructor: 3x3 bi-periodic planar mesh
  global_mesh = global_mesh_base_type()
  global_mesh_ptr => global_mesh
  partitioner_ptr => partitioner_planar
  partition = partition_type(global_mesh_ptr, partitioner_ptr, 1, 1, 0, 0, 1)
  extrusion = uniform_extrusion_type(0.0_r_def, 100.0_r_def, @NLAYERS@)
  extrusion_ptr => extrusion
  mesh = mesh_type(global_mesh_ptr, partition, extrusion_ptr)
  vs_w0 = function_space_type(mesh, @ORDER@, W0, 1)
  vs_w2 = function_space_type(mesh, @ORDER@, W2, 1)
  vs_w3 = function_space_type(mesh, @ORDER@, W3, 1)
  vs_wtheta = function_space_type(mesh, @ORDER@, Wtheta, 1)
  fs_w0 => vs_w0
  fs_w2 => vs_w2
  fs_w3 => vs_w3
  fs_wtheta => vs_wtheta
"""


def driver_source(cases, element_order=0, nlayers=3):
    """Fortran driver program running the given cases one after the other
    (see the module docstring for the case format). The executable accepts
    one optional argument: the 1-based number of the only case to run (used
    to isolate a crashing case without recompiling)."""
    head = (_DRIVER_HEAD.replace("@NLAYERS@", str(nlayers))
            .replace("@ORDER@", str(element_order)))
    lines = [head]
    for num, case in enumerate(cases):
        lines.append(f"  if (only == 0 .or. only == {num + 1}) "
                     f"call drv_{case['name']}()")
    lines.append("  write(*,'(A)') 'DRIVER-DONE'")
    lines.append("contains")
    for case in cases:
        lines.append(_driver_case(case))
    lines.append("end program lfric_driver")
    return "\n".join(lines) + "\n"


def _num(tok):
    """Exact value of a printed number (Fraction), or float nan/inf."""
    try:
        return Fraction(int(tok))
    except ValueError:
        val = float(tok)
        if val != val or val in (float("inf"), float("-inf")):
            return val
        return Fraction(val)


def parse_driver_output(stdout):
    """-> {case: {"fields": {name: [values]}, "scalars": {name: value},
                  "complete": bool}}; raises HarnessError when the output is
    malformed or the driver did not finish."""
    res = {}
    cur = None
    pending = None          # (name, remaining count)
    for line in stdout.splitlines():
        toks = line.split()
        if not toks:
            continue
        if pending is not None:
            name, todo = pending
            vals = [_num(t) for t in toks]
            cur["fields"][name] += vals
            todo -= len(vals)
            if todo < 0:
                raise HarnessError(f"too many values for {name}")
            pending = (name, todo) if todo else None
            continue
        if toks[0] == "CASE":
            cur = {"fields": {}, "scalars": {}, "complete": False}
            res[toks[1]] = cur
        elif toks[0] == "END":
            cur["complete"] = True
            cur = None
        elif toks[0] == "F" and cur is not None:
            cur["fields"][toks[2]] = []
            if int(toks[3]):
                pending = (toks[2], int(toks[3]))
        elif toks[0] == "S" and cur is not None:
            cur["scalars"][toks[2]] = _num(toks[3])
        # anything else: infrastructure log output, ignored
    if "DRIVER-DONE" not in stdout:
        raise HarnessError("driver did not finish:\n" + stdout[-2000:])
    return res
