! Executable test kernel of the verification suite (property C24).
! Semantics, DoF-wise over every DoF of the column (lowest order wtheta):
!     z := a*x + y
! wtheta is discontinuous: every DoF belongs to exactly one cell column and
! the column's DoFs are map(1), map(1)+1, ..., map(1)+nlayers.
module tk_axpy_wt_kernel_mod
  use argument_mod,      only: arg_type, gh_field, gh_scalar, gh_real, &
                               gh_integer, gh_read, gh_write,         &
                               gh_readwrite, cell_column
  use fs_continuity_mod, only: wtheta
  use constants_mod,     only: r_def, i_def
  use kernel_mod,        only: kernel_type
  implicit none
  private
  type, public, extends(kernel_type) :: tk_axpy_wt_kernel_type
     private
     type(arg_type), dimension(4) :: meta_args = (/ &
          arg_type(gh_field, gh_real, gh_write, wtheta), &
          arg_type(gh_scalar, gh_real, gh_read), &
          arg_type(gh_field, gh_real, gh_read, wtheta), &
          arg_type(gh_field, gh_real, gh_read, wtheta) /)
     integer :: operates_on = cell_column
   contains
     procedure, nopass :: code => tk_axpy_wt_code
  end type tk_axpy_wt_kernel_type
  public :: tk_axpy_wt_code
contains
  subroutine tk_axpy_wt_code(nlayers, z, a, x, y, ndf, undf, map)
    implicit none
    integer(kind=i_def), intent(in) :: nlayers
    integer(kind=i_def), intent(in) :: ndf
    integer(kind=i_def), intent(in) :: undf
    integer(kind=i_def), intent(in), dimension(ndf) :: map
    real(kind=r_def), intent(inout), dimension(undf) :: z
    real(kind=r_def), intent(in) :: a
    real(kind=r_def), intent(in), dimension(undf) :: x
    real(kind=r_def), intent(in), dimension(undf) :: y
    integer(kind=i_def) :: k, i
    do k = 0, nlayers
      i = map(1) + k
      z(i) = a*x(i) + y(i)
    end do
  end subroutine tk_axpy_wt_code
end module tk_axpy_wt_kernel_mod
