! Executable test kernel of the verification suite (property C24).
! Semantics, DoF-wise over every DoF of the column (lowest order w3):
!     x := a*x
! w3 is discontinuous: every DoF belongs to exactly one cell column and
! the column's DoFs are map(1), map(1)+1, ..., map(1)+nlayers-1.
module tk_scale_w3_kernel_mod
  use argument_mod,      only: arg_type, gh_field, gh_scalar, gh_real, &
                               gh_integer, gh_read, gh_write,         &
                               gh_readwrite, cell_column
  use fs_continuity_mod, only: w3
  use constants_mod,     only: r_def, i_def
  use kernel_mod,        only: kernel_type
  implicit none
  private
  type, public, extends(kernel_type) :: tk_scale_w3_kernel_type
     private
     type(arg_type), dimension(2) :: meta_args = (/ &
          arg_type(gh_field, gh_real, gh_readwrite, w3), &
          arg_type(gh_scalar, gh_real, gh_read) /)
     integer :: operates_on = cell_column
   contains
     procedure, nopass :: code => tk_scale_w3_code
  end type tk_scale_w3_kernel_type
  public :: tk_scale_w3_code
contains
  subroutine tk_scale_w3_code(nlayers, x, a, ndf, undf, map)
    implicit none
    integer(kind=i_def), intent(in) :: nlayers
    integer(kind=i_def), intent(in) :: ndf
    integer(kind=i_def), intent(in) :: undf
    integer(kind=i_def), intent(in), dimension(ndf) :: map
    real(kind=r_def), intent(inout), dimension(undf) :: x
    real(kind=r_def), intent(in) :: a
    integer(kind=i_def) :: k, i
    do k = 0, nlayers - 1
      i = map(1) + k
      x(i) = a*x(i)
    end do
  end subroutine tk_scale_w3_code
end module tk_scale_w3_kernel_mod
